"""Source texts for the auditor checks (C16 / C17): well-formed strict-subset programs, every Python
statement / expression form in several positions, mutations and line-level syntax errors."""
import random

BASE = '''from nada_dsl import *

def helper(x: SecretInteger, k: int) -> SecretInteger:
    return x * Integer(k) + x

def nada_main():
    p1 = Party(name="P1")
    p2 = Party("P2")
    a = SecretInteger(Input(name="a", party=p1))
    b = PublicInteger(Input("b", p2))
    c = a + b * a - b
    d = (a < b).if_else(a, b)
    n: int = 3
    xs: list[SecretInteger] = []
    for i in range(n):
        xs.append(a * Integer(i))
    ys = [helper(a, j) for j in range(2)]
    t = sum(xs)
    s = "out" + str(1)
    e = -c
    f = not True and (1 < 2)
    return [Output(t + d + ys[0], s, p1), Output(value=e, name="e", party=p2)]
'''

SMALL = '''from nada_dsl import *

def nada_main():
    p = Party(name="P")
    a = SecretInteger(Input(name="a", party=p))
    HOLE
    return [Output(a, "o", p)]
'''

STATEMENTS = [
    "x = 1", "x = y = 2", "x, y = 1, 2", "(x, y) = (1, 2)", "x += 1", "x: int = 1", "x: int", "x: 'int' = 1", "x: 5 = 1",
    "x: list[int] = []", "x: list = []", "x: list[list[int]] = [[1]]", "x: dict = {}", "x: print('EXECUTED') = 1",
    "a.b = 1", "a.b[0] = 1", "f()[0] = 1", "l = [1]\n    l[0] = 2", "l = [[1]]\n    l[0][0] = 2", "l = [1]\n    l['a'] = 1", "l[0] = 1",
    "l = [1]\n    l[0][1][2] = 3", "(a.b)[0][1] = 2",
    "del a", "pass", "return", "return 1, 2", "raise ValueError('x')", "assert a", "assert a, 'm'", "global g", "nonlocal a",
    "import os", "import os as o", "from os import path", "from nada_dsl import Party", "from . import x", "from nada_dsl import *",
    "if a:\n        pass", "if a:\n        x = 1\n    else:\n        x = 2", "while a:\n        break", "while True:\n        continue",
    "for i in range(3):\n        x = i", "for i in range():\n        pass", "for i in range(1, 2):\n        pass", "for i in [1, 2]:\n        pass",
    "for i, j in range(3):\n        pass", "for i in range(3):\n        pass\n    else:\n        pass", "for i in a:\n        pass",
    "with open('f') as g:\n        pass", "try:\n        x = 1\n    except Exception as e:\n        pass\n    finally:\n        pass",
    "def g(x):\n        return x", "def g(x: int):\n        return x", "def g(x: int) -> int:\n        return x", "def g() -> int:\n        return 1",
    "def g(x: int) -> int:\n        pass", "def g(x: print('EXECUTED')) -> int:\n        return 1", "def g(x: int) -> print('EXECUTED'):\n        return 1",
    "def g(x: list[int]) -> list[int]:\n        return x", "def g(*args, **kw) -> int:\n        return 1", "def g(x: int = 1) -> int:\n        return x",
    "@staticmethod\n    def g(x: int) -> int:\n        return x", "async def g():\n        pass", "class C:\n        pass", "class C(object):\n        x = 1",
    "lambda: 1", "x = lambda y: y", "x = (yield)", "x = await a", "match a:\n        case 1:\n            pass", "type X = int",
    "x = a if a else a", "x = [i for i in range(3)]", "x = [i for i in range(3) if i]", "x = [i for i in [1, 2]]", "x = [i + j for i in range(2) for j in range(2)]",
    "x = {i for i in range(3)}", "x = {i: i for i in range(3)}", "x = (i for i in range(3))", "x = {1, 2}", "x = {1: 2}", "x = (1, 2)", "x = []", "x = [1, 'a']",
    "x = 1 is 2", "x = 1 in [1]", "x = 1 not in [1]", "x = 1 is not 2", "x = 1 < 2 < 3", "x = 1 == 1", "x = 'a' == 'a'", "x = True == False", "x = a == a", "x = a != a",
    "x = a <= a", "x = 1 >= 2", "x = a < 1", "x = a and a", "x = True and 1", "x = not a", "x = not True", "x = -a", "x = +a", "x = ~a", "x = -1", "x = +1",
    "x = a + a", "x = a - 1", "x = a * 'a'", "x = a / a", "x = a // a", "x = a % a", "x = a ** a", "x = a << 1", "x = a >> 1", "x = a | a", "x = a & a", "x = a ^ a", "x = a @ a",
    "x = 'a' + 'b'", "x = 'a' * 2", "x = 1.5", "x = 1j", "x = None", "x = ...", "x = b'a'", "x = f'{a}'", "x = 'a' 'b'", "x = 10 ** 100",
    "x = a.b", "x = a.if_else", "x = a.if_else(a, a)", "x = (a < a).if_else(a, a)", "x = (a < a).if_else(a)", "x = (a < a).if_else(1, 2)", "x = True.if_else(a, a)",
    "x = a[0]", "x = a[0:1]", "x = [1][0]", "x = [1]['a']", "x = [1, 2][0:1]", "x = a[0][1]",
    "x = f(1)", "x = a(1)", "x = n(2)", "x = print(1)", "x = str(1)", "x = str('a')", "x = str()", "x = range(3)", "x = range()", "x = range(a)", "x = sum([a])", "x = sum([])",
    "x = sum(1)", "x = sum()", "x = len([1])", "x = Integer(1)", "x = Integer()", "x = Integer(a)", "x = Integer('a')", "x = PublicInteger(1)", "x = SecretInteger(Input())",
    "x = SecretInteger(Input(name='q', party=p))", "x = SecretInteger(Input('q', p))", "x = SecretInteger(Input('q', party=p))", "x = SecretInteger(Input(party=p, name='q'))",
    "x = Input(1, 2)", "x = Party()", "x = Party(1)", "x = Party(name=1)", "x = Party(nom='a')", "x = Output(a, 'o', p)", "x = Output(a, 'o')", "x = Output(1, 2, 3)",
    "x = Output(value=a, name='o', party=p)", "x = Output(a, name='o', party=p)", "x = Output(a, 'o', party=p)", "x = Output(a, 'o', p, 1)", "x = Output(party=p, nom='o', value=a)",
    "x = helper(a, 1)", "x = nada_main()", "x = (lambda: 1)()", "x = a.b.c(1)", "x = [].append(1)", "l = [1]\n    l.append(2)", "l = [1]\n    l.append('a')", "l.append(1)",
    "l = []\n    l.append(1)", "x = a.append(1)", "x = a.append()", "x = *a", "x = [*a]", "x = f(*a, **a)", "x = (y := 1)", "print(x := 1)", "a", "1", "'doc'", "a + a", "f()",
    "x = unbound", "x = unbound + 1", "x = x", "return [Output(a, 'o', p)]", "return []", "return a",
]

LAYOUTS = [
    "x = (a +\n         a)", "x = a + \\\n        a", "x   =   a+a", "x = a +a  # comment", "# only a comment", "", "x = [\n        1,\n        2,\n    ]",
    "x = (a\n         <\n         a)", "x = Output(\n        a,\n        'o',\n        p\n    )", "x = ((((a))))", "x=a<a", "x = a<a>a", "return'a'", "x = not(True)", "x = -(a)",
    "x = [i\n         for i in range(3)]", "for i in range(3): x = i", "if a: x = 1", "x = 1; y = 2", "x = 'a # not a comment'", "x = '''multi\n    line'''",
    "\tx = 1", "x = 1 \t ", "x = a.if_else(a,a)", "x = (a < a).if_else(a,a)", "x = helper(a ,1)", "x=[1,2,3]", "x = [ ]", "x = [1,2][0]",
]


def hole_texts():
    out = []
    for st in STATEMENTS + LAYOUTS:
        out.append(("hole-main:" + st[:40], SMALL.replace("HOLE", st)))
    for st in STATEMENTS[:90]:
        mod = st.replace("\n    ", "\n")
        out.append(("hole-module:" + st[:40], "from nada_dsl import *\n\n" + mod + "\n\ndef nada_main():\n    return []\n"))
    for st in STATEMENTS[:60]:
        body = st.replace("\n    ", "\n    ")
        out.append(("hole-helper:" + st[:40], "from nada_dsl import *\n\ndef h(a: SecretInteger) -> SecretInteger:\n    " + body + "\n    return a\n\ndef nada_main():\n    return []\n"))
    return out


def edge_texts():
    return [("empty", ""), ("whitespace", "   \n\n  \n"), ("newline", "\n"), ("comment", "# nothing\n"), ("just-import", "from nada_dsl import *"),
            ("no-main", "from nada_dsl import *\nx = 1\n"), ("main-no-body", "from nada_dsl import *\ndef nada_main(): pass"),
            ("main-args", "from nada_dsl import *\ndef nada_main(x, y=1):\n    return []\n"), ("decorated-main", "from nada_dsl import *\n@dec\ndef nada_main():\n    return []\n"),
            ("nested-def", "from nada_dsl import *\ndef nada_main():\n    def inner(x: int) -> int:\n        return x\n    return []\n"),
            ("class-main", "class nada_main:\n    pass\n"), ("unicode", "from nada_dsl import *\ndef nada_main():\n    x = 'héllo ✓'\n    return []\n"),
            ("tabs", "from nada_dsl import *\ndef nada_main():\n\tx = 1\n\treturn []\n"), ("crlf", "from nada_dsl import *\r\ndef nada_main():\r\n    return []\r\n"),
            ("only-syntax-errors", "def (:\n  ]]\n((\n"), ("unclosed", "from nada_dsl import *\ndef nada_main():\n    x = (1 +\n"),
            ("lone-cr", "x = 1\ry = 2"), ("lone-cr-main", "from nada_dsl import *\rdef nada_main():\r    return []\r"), ("cr-cr-lf", "x = 1\r\r\ny = 2"),
            ("lf-cr", "x = 1\n\ry = 2"), ("trailing-cr", "x = 1\r"), ("cr-in-string", "x = 'a\rb'"), ("form-feed", "x = 1\x0cy = 2"), ("nul", "x = 1\x00"),
            ("bom", "\ufeffx = 1"), ("line-separator", "x = 1\u2028y = 2"), ("nel", "x = 1\x85y = 2"), ("file-separator", "x = 1\x1cy = 2"),
            ("vertical-tab", "x = 1\x0by = 2"), ("surrogate", "x = '\ud800'"), ("long-line", "x = " + " + ".join(["1"] * 3000)), ("deep-parens", "x = " + "(" * 150 + "1" + ")" * 150),
            ("first-line-only-spaces", " \nx = 1"), ("first-line-four-spaces", "    \nfrom nada_dsl import *\n\ndef nada_main():\n    return []\n"),
            ("first-line-tab", "\t\nx = 1"), ("leading-blank-lines", "\n\n   \n\nx = 1\n"), ("trailing-spaces-only-lines", "x = 1\n    \n  \n"),
            ("list-nesting-itself-in-a-loop", "from nada_dsl import *\n\ndef nada_main():\n    x = 1\n    acc = [x]\n    for i in range(3):\n        acc = [acc]\n    return []\n"),
            ("type-changing-in-a-loop", "from nada_dsl import *\n\ndef nada_main():\n    acc = 1\n    for i in range(3):\n        acc = [acc, acc]\n        acc = str(acc)\n    return []\n"),
            ("nested-loops-rebinding", "from nada_dsl import *\n\ndef nada_main():\n    a = []\n    for i in range(2):\n        for j in range(2):\n            a = [a]\n            a.append(a)\n    return []\n"),
            ("bad-indent", "from nada_dsl import *\ndef nada_main():\n  x = 1\n     y = 2\n    return []\n"), ("base", BASE)]


def mutations(rng, n):
    lines = BASE.split("\n")
    out = []
    for k in range(n):
        ls = list(lines)
        kind = rng.choice(["delete", "dup", "syntax", "syntax2", "truncate", "swap", "dedent", "garble"])
        i = rng.randrange(len(ls))
        if kind == "delete":
            del ls[i]
        elif kind == "dup":
            ls.insert(i, ls[i])
        elif kind == "syntax":
            ls[i] = ls[i] + " ((("
        elif kind == "syntax2":
            for j in rng.sample(range(len(ls)), 3):
                ls[j] = ls[j] + " ]"
        elif kind == "truncate":
            ls = ls[:i]
        elif kind == "swap":
            j = rng.randrange(len(ls)); ls[i], ls[j] = ls[j], ls[i]
        elif kind == "dedent":
            ls[i] = ls[i].lstrip()
        else:
            ls[i] = "".join(rng.choice("()[]{}:=+-<>,.' ") if rng.random() < 0.2 else ch for ch in ls[i])
        out.append((f"mutation-{kind}-{k}", "\n".join(ls)))
    return out


# ---- compositional family: every expression position of every statement template filled with every kind of expression
PRELUDE = '''from nada_dsl import *

def helper(x: SecretInteger, k: int) -> SecretInteger:
    return x

def nada_main():
    p = Party(name="P")
    a = SecretInteger(Input(name="a", party=p))
    u = PublicInteger(Input(name="u", party=p))
    n = 3
    l = [1, 2, 3]
    ll = [[1], [2]]
    xs: list[SecretInteger] = []
    BODY
    return [Output(a, "o", p)]
'''

# (template, default fillers): {0}, {1}, {2} are expression holes
TEMPLATES = [
    ("x = {0}", ["a"]), ("x: int = {0}", ["1"]), ("x: SecretInteger = {0}", ["a"]), ("x: list[int] = {0}", ["l"]), ("x: {0} = 1", ["int"]),
    ("l[{0}] = {1}", ["0", "1"]), ("ll[{0}][{1}] = {2}", ["0", "0", "1"]), ("xs[{0}] = {1}", ["0", "a"]), ("l.append({0})", ["1"]), ("xs.append({0})", ["a"]),
    ("{0}.append({1})", ["l", "1"]), ("for i in range({0}):\n        y = {1}", ["n", "a"]), ("for i in {0}:\n        pass", ["range(2)"]),
    ("x = [{0} for i in range({1})]", ["a", "2"]), ("x = [{0} for i in {1}]", ["i", "range(2)"]), ("x = {0}.if_else({1}, {2})", ["(a < u)", "a", "u"]),
    ("x = helper({0}, {1})", ["a", "1"]), ("x = {0}({1})", ["helper", "a"]), ("x = Output({0}, {1}, {2})", ["a", "'o'", "p"]), ("return [{0}]", ["Output(a, 'o', p)"]),
    ("return {0}", ["[Output(a, 'o', p)]"]), ("x = {0} + {1}", ["a", "u"]), ("x = {0} * {1}", ["a", "u"]), ("x = {0} < {1}", ["a", "u"]), ("x = {0} == {1}", ["a", "u"]),
    ("x = -{0}", ["a"]), ("x = not {0}", ["True"]), ("x = {0} and {1}", ["True", "False"]), ("x = sum({0})", ["xs"]), ("x = str({0})", ["1"]), ("x = {0}[{1}]", ["l", "0"]),
    ("x = Integer({0})", ["1"]), ("x = SecretInteger(Input({0}, {1}))", ["'q'", "p"]), ("x = SecretInteger(Input(name={0}, party={1}))", ["'q'", "p"]),
    ("x = SecretInteger({0})", ["Input('q', p)"]), ("x = Party({0})", ["'Q'"]), ("x = Party(name={0})", ["'Q'"]), ("x = [{0}, {1}]", ["1", "2"]), ("x = range({0})", ["3"]),
    ("x = Output(value={0}, name={1}, party={2})", ["a", "'o'", "p"]), ("def g(y: {0}) -> {1}:\n        return y", ["int", "int"]), ("{0}", ["a"]),
]

POOL = ["1", "0", "-1", "a", "u", "n", "p", "l", "ll", "xs", "zz", "1.5", "'s'", "True", "None", "[]", "[1, 2]", "[a]", "[1, 'a']", "[[1]]", "l[0]", "ll[0]", "l['k']",
        "'a' - 1", "a + 's'", "zz + 1", "a < u", "(a < u)", "1 < 2", "(a < u).if_else(a, u)", "helper(a, 1)", "helper", "nada_main", "str", "int", "list[int]", "SecretInteger",
        "range(3)", "range(n)", "Integer(2)", "-a", "not 1", "(1, 2)", "{1: 2}", "lambda: 1", "f'{a}'", "...", "x", "i", "a.b", "a if a else u", "sum(xs)", "str(1)",
        "Input('r', p)", "Party('R')", "Output(a, 'o', p)", "print('EXECUTED')", "'print(1)'", "__import__('os')"]


def grammar_texts(rng, extra):
    out = []
    for tpl, dflt in TEMPLATES:
        for h in range(len(dflt)):
            for e in POOL:
                fill = list(dflt)
                fill[h] = e
                out.append((f"grammar:{tpl[:24]}@{h}:{e[:16]}", PRELUDE.replace("BODY", tpl.format(*fill))))
    for k in range(extra):
        tpl, dflt = rng.choice(TEMPLATES)
        tpl2, dflt2 = rng.choice(TEMPLATES)
        body = tpl.format(*[rng.choice(POOL) for _ in dflt]) + "\n    " + tpl2.format(*[rng.choice(POOL) for _ in dflt2])
        out.append((f"grammar-random-{k}", PRELUDE.replace("BODY", body)))
    return out


def long_chain_texts():
    """one long operator chain on one line: the auditor's cost must stay polynomial in the length of an expression"""
    out = []
    for n in (12, 24, 40):
        terms = " + ".join(f"x{i} * w" for i in range(n))
        decl = "\n".join(f"    x{i} = SecretInteger(Input(name='x{i}', party=p))" for i in range(n))
        out.append((f"long-chain-{n}", "from nada_dsl import *\n\ndef nada_main():\n    p = Party(name='P')\n    w = PublicInteger(Input(name='w', party=p))\n"
                    + decl + f"\n    t = {terms}\n    return [Output(t, 'o', p)]\n"))
        strs = " + ".join(f"'s{i}'" for i in range(n))
        out.append((f"long-string-chain-{n}", "from nada_dsl import *\n\ndef nada_main():\n    p = Party(name='P')\n    a = SecretInteger(Input(name='a', party=p))\n"
                    f"    nm = {strs}\n    return [Output(a, nm, p)]\n"))
    # deeper than the interpreter's recursion limit, shallower than the parser's
    out.append(("literal-chain-1200", "from nada_dsl import *\n\ndef nada_main():\n    x = 1" + "+1" * 1200 + "\n    return []\n"))
    nest = "a"
    for i in range(30):
        nest = f"({nest} - a)"
    out.append(("deep-parentheses-30", "from nada_dsl import *\n\ndef nada_main():\n    p = Party(name='P')\n    a = SecretInteger(Input(name='a', party=p))\n"
                f"    t = {nest}\n    return [Output(t, 'o', p)]\n"))
    return out


def clean_programs():
    """programs inside the strict subset with no finding at all: the auditor has no reason to stop before the end, and
    nothing of them may be executed (a loop that is cheap to type and endless to run; a program whose execution would
    leave parties / inputs behind)"""
    return [
        ("clean-endless-to-run", "from nada_dsl import *\n\ndef nada_main():\n    p = Party(name=\"P\")\n    a = SecretInteger(Input(name=\"a\", party=p))\n"
                                 "    t = a + a\n    for i in range(1000000000000):\n        t = t + a\n    return [Output(t, \"t\", p)]\n"),
        ("clean-small", "from nada_dsl import *\n\ndef nada_main():\n    p = Party(name=\"Auditee\")\n    a = SecretInteger(Input(name=\"a\", party=p))\n"
                        "    b = PublicInteger(Input(name=\"b\", party=p))\n    return [Output(a * b, \"ab\", p)]\n"),
        ("clean-with-helper", "from nada_dsl import *\n\ndef twice(x: SecretInteger) -> SecretInteger:\n    return x + x\n\ndef nada_main():\n    p = Party(name=\"P\")\n"
                              "    a = SecretInteger(Input(name=\"a\", party=p))\n    xs = [twice(a) for i in range(3)]\n    return [Output(sum(xs), \"s\", p)]\n"),
    ]


def layout_texts():
    """unusual layouts (eighth seeding round and its side remarks): string annotations that are not expressions,
    continuation lines starting in column 0, a decorator shorter than `def`, non-ASCII names and strings"""
    H = "from nada_dsl import *\n\ndef nada_main():\n    p = Party(name='P')\n    x = SecretInteger(Input(name='x', party=p))\n    y = PublicInteger(Input(name='y', party=p))\n"
    T = "    return [Output(x, 'o', p)]\n"
    out = []
    for k, body in enumerate([
            "    total: \"the sum, still secret\" = x + x\n", "    v: \"list[SecretInteger\" = []\n", "    n: \"\" = 3\n", "    m: \" int\" = 3\n",
            "    q: \"SecretInteger\" = x\n", "    r: list[\"SecretInteger\"] = [x]\n", "    w: \"1/0\" = 1\n"]):
        out.append((f"string-annotation-{k}", H + body + T))
    out.append(("string-annotation-on-a-parameter", "from nada_dsl import *\n\ndef tally(votes: \"list of secret votes\") -> \" SecretInteger\":\n    return votes\n\n" + H.split("\n\n", 1)[1] + T))
    for k, body in enumerate(["    z = (x\n+\ny)\n", "    z = (x < y\n).if_else(x, y)\n", "    b = (True and\nFalse)\n", "    z = (x +\n y)\n", "    z = [x,\ny]\n"]):
        out.append((f"continuation-in-column-0-{k}", H + body + T))
    out.append(("short-decorator", "from nada_dsl import *\n@f\ndef g(a: SecretInteger) -> SecretInteger:\n    return a\n"))
    out.append(("short-decorator-in-main", H + "    @f\n    def g(a: SecretInteger) -> SecretInteger:\n        return a\n" + T))
    for k, body in enumerate(["    zoe = Party(\"Zo\u00eb\")\n    age = SecretInteger(Input(\"\u00e2ge\", zoe))\n", "    bank = Party(name=\"Soci\u00e9t\u00e9 G\u00e9n\u00e9rale\")\n",
                              "    \u5408\u8a08 = x + x\n    z = \u5408\u8a08 * y\n", "    s = \"\u5408\u8a08\" + str(1)\n    t = x + x\n"]):
        out.append((f"non-ascii-{k}", H + body + T))
    # tenth seeding round: integer constants too large for int -> str conversion, written in hex / binary / octal
    # (the parser accepts them; the decimal spelling is refused and the line merely skipped)
    for k, body in enumerate(["    MASK = 0x" + "f" * 4000 + "\n", "    k = Integer(0b1" + "01" * 8000 + ")\n", "    z = x + 0o7" + "1" * 5000 + "\n",
                              "    big = [0x" + "a" * 3700 + ", 1]\n", "    n: int = -0x" + "9" * 3800 + "\n"]):
        out.append((f"huge-constant-{k}", H + body + T))
    out.append(("huge-constant-at-module-level", "from nada_dsl import *\n\nLIMIT = 0x" + "e" * 4200 + "\n\n" + H.split("\n\n", 1)[1] + T))
    # `in` on another line than the loop target (a comment or a backslash after the target)
    for k, body in enumerate(["    xs = [x for i  # 0, 1, 2\n          in range(3)]\n", "    for i \\\n            in range(3):\n        z = x + x\n",
                              "    xs = [x for i \\\n in range(3)]\n", "    ys = [x for i in range(2) for j  # inner\n          in range(2)]\n",
                              "    for i in (  # the bounds\n            range(3)):\n        z = x + x\n"]):
        out.append((f"in-on-another-line-{k}", H + body + T))
    # fourteenth seeding round: boolean chains of three and more operands (each operator is displayed), imports of
    # dotted / missing / special modules (nothing is looked up or imported), bare annotations, augmented assignments
    for k, body in enumerate(["    b = True and False and True\n", "    c = True or False or True or False\n", "    d = (True and\n         False and\n         True)\n",
                              "    e = not True and False or True and True\n", "    f = x < y and y < x and True\n"]):
        out.append((f"boolean-chain-{k}", H + body + T))
    for k, line in enumerate(["from no_such_pkg.sub import f", "from no_such_pkg_xyz import f", "from __main__ import helper", "from os.path import join",
                              "from nada_dsl.audit.no_such import thing", "from . import helpers", "from .. import helpers", "from json.decoder import JSONDecoder as D",
                              "import no_such_pkg.sub", "import os.path as osp"]):
        out.append((f"import-{k}", "from nada_dsl import *\n" + line + "\n" + H.split("\n\n", 1)[1] + T))
        out.append((f"import-in-function-{k}", H + "    " + line + "\n" + T))
    return out


def all_texts(seed, tier):
    rng = random.Random(seed)
    t = edge_texts() + clean_programs() + layout_texts() + long_chain_texts() + hole_texts() + mutations(rng, 60 if tier == "quick" else 2000) + grammar_texts(rng, 100 if tier == "quick" else 4000)
    return t
