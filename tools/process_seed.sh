#!/bin/bash
# usage: process_seed.sh <ID> <i> <round-prefix: seed2|seed3>  -- confirm a sub-agent's change, then run the property's quick check against it
ID=$1; i=$2; pre=${3:-seed2}
sd=/tmp/$pre-$ID-$i; wt=/tmp/wt2-$ID
[ -f $sd/patch.diff ] || { echo "$ID-$i: no patch"; exit 0; }
c=$(bash /verif/tools/confirm_seed.sh $wt $sd 2>&1 | tail -1)
echo "$ID-$i confirm: $c"
out=$(bash /verif/tools/try_seed.sh $sd/patch.diff $ID quick 12 2>&1)
echo "$out" | grep "prove: BROKEN\|^VIOLATION\|check exit\|APPLY" | cut -c1-170 | head -6
