#!/venv/bin/python
"""Fail-closed serialiser: Python `ast` of selected /repo files -> Gallina terms of
the PyMini deep embedding (coq/PyMini/PyMini.v) and generated tables.

It is a *serialiser*: the meaning of what it emits is given in Coq by PyMini.eval.
Any node kind outside the whitelist raises ExtractError(file, line, why); the caller
(the check driver) then treats the tie as broken.

Usage: extract.py <repo> <outdir>      (re)writes <outdir>/Gen*.v, touching only files
whose text changed.
"""
import ast
import os
import sys


class ExtractError(Exception):
    def __init__(self, file, line, why):
        super().__init__(f"{file}:{line}: {why}")
        self.file, self.line, self.why = file, line, why


CUR_FILE = "?"


def fail(node, why):
    raise ExtractError(CUR_FILE, getattr(node, "lineno", 0), why)


def cstr(s):
    for ch in s:
        if ord(ch) < 32 or ord(ch) > 126:
            raise ExtractError(CUR_FILE, 0, f"non-printable character in string {s!r}")
    return '"' + s.replace('"', '""') + '"'


def clist(items):
    return "[" + "; ".join(items) + "]"


def cz(n):
    return f"({n})%Z"


CMP = {ast.Eq: "CEq", ast.NotEq: "CNe", ast.Lt: "CLt", ast.LtE: "CLe", ast.Gt: "CGt",
       ast.GtE: "CGe", ast.In: "CIn", ast.NotIn: "CNotIn", ast.Is: "CIs", ast.IsNot: "CIsNot"}
BIN = {ast.Add: "BAdd", ast.Sub: "BSub", ast.Mult: "BMul", ast.Div: "BTrueDiv",
       ast.FloorDiv: "BFloorDiv", ast.Mod: "BMod", ast.Pow: "BPow", ast.LShift: "BLShift",
       ast.RShift: "BRShift", ast.BitAnd: "BAnd", ast.BitOr: "BOr", ast.BitXor: "BXor"}


def back_frame_depth(node):
    """SourceRef.back_frame() -> 1, SourceRef.back_frame().back_frame() -> 2, ... else None"""
    if (isinstance(node, ast.Call) and isinstance(node.func, ast.Attribute)
            and node.func.attr == "back_frame" and not node.args and not node.keywords):
        inner = node.func.value
        if isinstance(inner, ast.Name) and inner.id in ("SourceRef", "cls"):
            return 1
        d = back_frame_depth(inner)
        if d is not None:
            return d + 1
    return None


def expr(n):
    if isinstance(n, ast.Constant):
        v = n.value
        if isinstance(v, bool):
            return f"(EBoolC {'true' if v else 'false'})"
        if isinstance(v, int):
            return f"(EInt {cz(v)})"
        if isinstance(v, str):
            return f"(EStr {cstr(v)})"
        if v is None:
            return "ENone"
        fail(n, f"constant of type {type(v).__name__}")
    if isinstance(n, ast.Name):
        return f"(EName {cstr(n.id)})"
    if isinstance(n, ast.JoinedStr):
        return '(EOpaque "fstring")'
    d = back_frame_depth(n)
    if d is not None:
        return f'(EOpaque "back_frame:{d}")'
    if isinstance(n, ast.Attribute):
        return f"(EAttr {expr(n.value)} {cstr(n.attr)})"
    if isinstance(n, ast.Call):
        if (isinstance(n.func, ast.Name) and n.func.id == "all" and len(n.args) == 1
                and isinstance(n.args[0], ast.GeneratorExp)):
            g = n.args[0]
            if len(g.generators) != 1 or g.generators[0].ifs or g.generators[0].is_async \
                    or not isinstance(g.generators[0].target, ast.Name):
                fail(n, "unsupported generator in all()")
            gen = g.generators[0]
            return f"(EAllGen {cstr(gen.target.id)} {expr(gen.iter)} {expr(g.elt)})"
        for a in n.args:
            if isinstance(a, ast.Starred):
                fail(n, "starred argument")
        for k in n.keywords:
            if k.arg is None:
                fail(n, "**kwargs argument")
        args = clist([expr(a) for a in n.args])
        kws = clist([f"({cstr(k.arg)}, {expr(k.value)})" for k in n.keywords])
        return f"(ECall {expr(n.func)} {args} {kws})"
    if isinstance(n, ast.Compare):
        if len(n.ops) != 1:
            fail(n, "chained comparison")
        return f"(ECmp {CMP[type(n.ops[0])]} {expr(n.left)} {expr(n.comparators[0])})"
    if isinstance(n, ast.BoolOp):
        o = "BoAnd" if isinstance(n.op, ast.And) else "BoOr"
        return f"(EBoolOp {o} {clist([expr(v) for v in n.values])})"
    if isinstance(n, ast.UnaryOp):
        if isinstance(n.op, ast.Not):
            return f"(ENot {expr(n.operand)})"
        if isinstance(n.op, ast.USub):
            return f"(ENeg {expr(n.operand)})"
        fail(n, f"unary operator {type(n.op).__name__}")
    if isinstance(n, ast.BinOp):
        if type(n.op) not in BIN:
            fail(n, f"binary operator {type(n.op).__name__}")
        return f"(EBin {BIN[type(n.op)]} {expr(n.left)} {expr(n.right)})"
    if isinstance(n, ast.IfExp):
        return f"(EIfExp {expr(n.test)} {expr(n.body)} {expr(n.orelse)})"
    if isinstance(n, ast.Tuple):
        return f"(ETuple {clist([expr(e) for e in n.elts])})"
    if isinstance(n, ast.List):
        return f"(EList {clist([expr(e) for e in n.elts])})"
    if isinstance(n, ast.Lambda):
        a = n.args
        if a.vararg or a.kwarg or a.kwonlyargs or a.defaults or a.posonlyargs:
            fail(n, "lambda with non-plain parameters")
        return f"(ELambda {clist([cstr(x.arg) for x in a.args])} {expr(n.body)})"
    if isinstance(n, ast.Subscript):
        return f"(ESubscript {expr(n.value)} {expr(n.slice)})"
    if isinstance(n, ast.ListComp):
        if len(n.generators) != 1 or n.generators[0].ifs or n.generators[0].is_async \
                or not isinstance(n.generators[0].target, ast.Name):
            fail(n, "unsupported list comprehension")
        gen = n.generators[0]
        return f"(EListComp {expr(n.elt)} {cstr(gen.target.id)} {expr(gen.iter)})"
    fail(n, f"expression node {type(n).__name__}")


def exn_name(n):
    if n is None:
        fail(n, "bare raise")
    if isinstance(n, ast.Call):
        n = n.func
    if isinstance(n, ast.Name):
        return n.id
    fail(n, "raise of a non-name")


def is_docstring(s):
    return isinstance(s, ast.Expr) and isinstance(s.value, ast.Constant) and isinstance(s.value.value, str)


def stmts(body):
    out = []
    for s in body:
        if is_docstring(s) or isinstance(s, ast.Global):
            continue
        out.append(stmt(s))
    return clist(out)


def pattern_values(p):
    if isinstance(p, ast.MatchValue):
        return [expr(p.value)]
    if isinstance(p, ast.MatchOr):
        r = []
        for q in p.patterns:
            r += pattern_values(q)
        return r
    fail(p, f"match pattern {type(p).__name__}")


def stmt(s):
    if isinstance(s, ast.Assign):
        if len(s.targets) == 1 and isinstance(s.targets[0], ast.Attribute) and isinstance(s.targets[0].value, ast.Name) \
                and s.targets[0].value.id != "self":
            return f"(SAttrAssign {cstr(s.targets[0].value.id)} {cstr(s.targets[0].attr)} {expr(s.value)})"
        if len(s.targets) != 1 or not isinstance(s.targets[0], ast.Name):
            fail(s, "assignment to a non-name target")
        return f"(SAssign {cstr(s.targets[0].id)} {expr(s.value)})"
    if isinstance(s, ast.AugAssign):
        # statistics counters of the abstract interpreter: no effect on values or types
        if ast.unparse(s.target).startswith("Abstract.analysis["):
            return "SPass"
        fail(s, "augmented assignment")
    if isinstance(s, ast.AnnAssign):
        if not isinstance(s.target, ast.Name) or s.value is None:
            fail(s, "annotated assignment shape")
        return f"(SAssign {cstr(s.target.id)} {expr(s.value)})"
    if isinstance(s, ast.Expr):
        return f"(SExpr {expr(s.value)})"
    if isinstance(s, ast.If):
        return f"(SIf {expr(s.test)} {stmts(s.body)} {stmts(s.orelse)})"
    if isinstance(s, ast.Raise):
        return f"(SRaise {cstr(exn_name(s.exc))})"
    if isinstance(s, ast.Return):
        return f"(SReturn {expr(s.value) if s.value is not None else 'ENone'})"
    if isinstance(s, ast.Pass):
        return "SPass"
    if isinstance(s, ast.Match):
        cases = []
        for c in s.cases:
            if c.guard is not None:
                fail(c, "match guard")
            cases.append(f"({clist(pattern_values(c.pattern))}, {stmts(c.body)})")
        return f"(SMatch {expr(s.subject)} {clist(cases)})"
    fail(s, f"statement node {type(s).__name__}")


def const_value(n):
    """a constant default value as a PyMini value term, or None"""
    if isinstance(n, ast.Constant):
        v = n.value
        if v is None:
            return "VNone"
        if isinstance(v, bool):
            return f"(VBool {'true' if v else 'false'})"
        if isinstance(v, int):
            return f"(VInt {cz(v)})"
        if isinstance(v, str):
            return f"(VStr {cstr(v)})"
    return None


def defaults_of(fn):
    a = fn.args
    out = []
    nd = len(a.defaults)
    if nd:
        for arg, d in zip(a.args[-nd:], a.defaults):
            cv = const_value(d)
            if cv is not None:
                out.append(f"({cstr(arg.arg)}, {cv})")
    return clist(out)


def fundef(fn):
    a = fn.args
    if a.vararg or a.kwarg or a.kwonlyargs or a.posonlyargs:
        fail(fn, f"function {fn.name} with non-plain parameters")
    # non-constant defaults are ignored: a call that omits such a parameter fails in PyMini (closed)
    params = [x.arg for x in a.args]
    return (f"{{| f_params := {clist([cstr(p) for p in params])}; f_defaults := {defaults_of(fn)}; "
            f"f_body := {stmts(fn.body)} |}}")


def try_fundef(fn):
    """A body outside the fragment becomes a body that raises a PyMini-internal error:
    theorems that evaluate it fail (closed), theorems that never reach it are unaffected."""
    try:
        return fundef(fn), None
    except ExtractError as e:
        params = [x.arg for x in fn.args.args]
        return (f"{{| f_params := {clist([cstr(p) for p in params])}; f_defaults := []; "
                f"f_body := [SRaise \"PyMini:untranslated\"] |}}"), str(e)


# ----------------------------------------------------------------- classes

def decorator_names(c):
    r = []
    for d in c.decorator_list:
        if isinstance(d, ast.Name):
            r.append((d.id, d))
        elif isinstance(d, ast.Call) and isinstance(d.func, ast.Name):
            r.append((d.func.id, d))
        elif isinstance(d, ast.Attribute):
            r.append((d.attr, d))
        else:
            fail(d, "decorator shape")
    return r


def base_names(c):
    r = []
    for b in c.bases:
        if isinstance(b, ast.Name):
            r.append(b.id)
        elif isinstance(b, ast.Subscript) and isinstance(b.value, ast.Name):
            r.append(b.value.id)          # Generic[T]
        elif isinstance(b, ast.Attribute):
            r.append(b.attr)
        else:
            fail(b, "base class shape")
    return r


def c3(name, bases_of):
    def merge(seqs):
        res = []
        seqs = [list(s) for s in seqs if s]
        while seqs:
            for s in seqs:
                h = s[0]
                if not any(h in t[1:] for t in seqs):
                    break
            else:
                raise ExtractError(CUR_FILE, 0, f"inconsistent MRO for {name}")
            res.append(h)
            seqs = [[x for x in s if x != h] for s in seqs]
            seqs = [s for s in seqs if s]
        return res
    bs = bases_of.get(name, [])
    return [name] + merge([c3(b, bases_of) for b in bs] + [list(bs)])


def enum_attr(n, enum):
    """Mode.SECRET -> 'SECRET' when n is Attribute(Name(enum), member)"""
    if isinstance(n, ast.Attribute) and isinstance(n.value, ast.Name) and n.value.id == enum:
        return n.attr
    return None


def is_self_attr_assign(s, params):
    """self.x = x   or   self.id = next_operation_id()  -> (field, kind)"""
    if isinstance(s, ast.Assign) and len(s.targets) == 1:
        t = s.targets[0]
        if isinstance(t, ast.Attribute) and isinstance(t.value, ast.Name) and t.value.id == "self":
            v = s.value
            if isinstance(v, ast.Name) and v.id in params:
                return (t.attr, ("param", v.id))
            if (isinstance(v, ast.Call) and isinstance(v.func, ast.Name)
                    and v.func.id == "next_operation_id" and not v.args):
                return (t.attr, ("newid", None))
            if isinstance(v, ast.Constant) and v.value is None:
                return (t.attr, ("none", None))
            d = back_frame_depth(v)
            if d is not None:
                return (t.attr, ("back_frame", d))
    return None


def is_super_init(s):
    if isinstance(s, ast.Expr) and isinstance(s.value, ast.Call):
        f = s.value.func
        if (isinstance(f, ast.Attribute) and f.attr == "__init__" and isinstance(f.value, ast.Call)
                and isinstance(f.value.func, ast.Name) and f.value.func.id == "super"):
            return s.value
    return None


def recognise_ctor(c, init, info):
    """Returns the Gallina ctor term for class c, and fills info (dict) with
    allocation facts used by other generated tables."""
    if init is None:
        return None
    body = [s for s in init.body if not is_docstring(s)]
    params = [a.arg for a in init.args.args][1:]
    src = [ast.unparse(s0).replace("\n", " ; ") for s0 in body]
    # audit/abstract.py: Abstract(cls=None) re-classes itself; AbstractInteger/Boolean(input=None, value=None)
    if params == ["cls"] and src == ["self.value = None", "if cls is not None: ;     self.__class__ = cls"]:
        return "CtorReclass"
    if params == ["input", "value"] and src == ["if isinstance(input, int): ;     input, value = (None, input)", "super().__init__(input, value)"]:
        return "CtorInputValue"
    if params == ["input", "value"] and src[:3] == ["super().__init__()", "self.input = input",
                                                     "self.value = self.input._value() if input is not None else value"] \
            and len(src) == 4 and src[3].startswith("if input is not None:"):
        return "CtorInputValue"
    # literal: value = NORM(value); super().__init__(Literal(value=value, source_ref=..), BaseType.X, Mode.Y); self.value = value
    if len(body) == 3 and params == ["value"]:
        s0, s1, s2 = body
        call = is_super_init(s1)
        if (isinstance(s0, ast.Assign) and isinstance(s0.targets[0], ast.Name) and s0.targets[0].id == "value"
                and isinstance(s0.value, ast.Call) and isinstance(s0.value.func, ast.Name)
                and len(s0.value.args) == 1 and isinstance(s0.value.args[0], ast.Name)
                and s0.value.args[0].id == "value"
                and call is not None and len(call.args) == 3 and not call.keywords
                and isinstance(call.args[0], ast.Call) and isinstance(call.args[0].func, ast.Name)
                and call.args[0].func.id == "Literal"
                and is_self_attr_assign(s2, params) == ("value", ("param", "value"))):
            lit = call.args[0]
            kw = {k.arg: k.value for k in lit.keywords}
            if (set(kw) == {"value", "source_ref"} and isinstance(kw["value"], ast.Name)
                    and kw["value"].id == "value" and not lit.args):
                base = enum_attr(call.args[1], "BaseType")
                mode = enum_attr(call.args[2], "Mode")
                if base and mode:
                    info["literal_source_ref_depth"] = back_frame_depth(kw["source_ref"])
                    return f"(CtorLiteral {cstr(s0.value.func.id)} {cstr(base)} {cstr(mode)})"
    # scalar wrapper: super().__init__(child, BaseType.X, Mode.Y)
    if len(body) == 1 and params == ["child"]:
        call = is_super_init(body[0])
        if call is not None and len(call.args) == 3 and not call.keywords \
                and isinstance(call.args[0], ast.Name) and call.args[0].id == "child":
            base = enum_attr(call.args[1], "BaseType")
            mode = enum_attr(call.args[2], "Mode")
            if base and mode:
                return f"(CtorChild {cstr(base)} {cstr(mode)})"
    # generic: only self.x = <param> / self.id = next_operation_id() / None / back_frame, plus
    # optionally one super().__init__(...) whose arguments are parameters
    fields = []
    for s in body:
        r = is_self_attr_assign(s, params)
        if r is not None:
            fields.append(r)
            continue
        call = is_super_init(s)
        if call is not None and not call.args \
                and all(isinstance(k.value, ast.Name) and k.value.id in params for k in call.keywords):
            if "super_map" in info:
                return None
            info["super_map"] = {k.arg: k.value.id for k in call.keywords}
            continue
        if ast.unparse(s) == "if self.child is not None:\n    self.child.store_in_ast(self.to_mir())":
            info["stores_child"] = True
            continue
        return None
    info["fields"] = fields
    info["params"] = params
    return "GENERIC"


class Module:
    def __init__(self, repo, rel):
        global CUR_FILE
        self.rel = rel
        self.path = os.path.join(repo, rel)
        CUR_FILE = rel
        with open(self.path, encoding="utf-8") as f:
            self.src = f.read()
        self.tree = ast.parse(self.src)
        self.classes = [n for n in self.tree.body if isinstance(n, ast.ClassDef)]
        self.funcs = [n for n in self.tree.body if isinstance(n, ast.FunctionDef)]


def methods_of(c):
    return [n for n in c.body if isinstance(n, ast.FunctionDef)]


def emit_class_table(mods, skip_funcs=(), extra_consts=None, notes=None):
    """Build the Gallina text of funs / classes / enums / consts for a set of modules."""
    global CUR_FILE
    bases_of = {}
    allc = []
    for m in mods:
        for c in m.classes:
            bases_of[c.name] = base_names(c)
            allc.append((m, c))
    enums, enum_methods, classes, funs, registry = [], [], [], [], []
    untranslated = []
    for m, c in allc:
        CUR_FILE = m.rel
        if "Enum" in bases_of[c.name]:
            members = []
            for s in c.body:
                if isinstance(s, ast.Assign) and len(s.targets) == 1 and isinstance(s.targets[0], ast.Name) \
                        and isinstance(s.value, ast.Constant) and isinstance(s.value.value, int):
                    members.append(f"({cstr(s.targets[0].id)}, {cz(s.value.value)})")
                elif is_docstring(s) or isinstance(s, ast.FunctionDef):
                    pass
                else:
                    fail(s, f"enum {c.name} member shape")
            enums.append(f"({cstr(c.name)}, {clist(members)})")
            ms = []
            for f in methods_of(c):
                fd, err = try_fundef(f)
                if err:
                    untranslated.append(err)
                ms.append(f"({cstr(f.name)}, {fd})")
            enum_methods.append(f"({cstr(c.name)}, {clist(ms)})")
            continue
        decs = decorator_names(c)
        dataclass = any(d == "dataclass" for d, _ in decs)
        for d, node in decs:
            if d == "register_scalar_type":
                if not (isinstance(node, ast.Call) and len(node.args) == 2):
                    fail(node, "register_scalar_type shape")
                mode = enum_attr(node.args[0], "Mode")
                base = enum_attr(node.args[1], "BaseType")
                if not mode or not base:
                    fail(node, "register_scalar_type arguments")
                registry.append((mode, base, c.name))
            elif d not in ("dataclass",):
                fail(node, f"unknown class decorator {d}")
        meths = methods_of(c)
        names = [f.name for f in meths]
        init = next((f for f in meths if f.name == "__init__"), None)
        info = {}
        ctor = recognise_ctor(c, init, info)
        if init is not None and ctor is None:
            ctor = "CtorNone"
            untranslated.append(f"{m.rel}:{init.lineno}: __init__ of {c.name} not recognised")
        if init is None:
            ctor = None     # inherit: resolved below
        ms, cms = [], []
        for f in meths:
            if f.name == "__init__":
                continue
            fdecs = [d.id if isinstance(d, ast.Name) else getattr(d, "attr", "?") for d in f.decorator_list]
            if "classmethod" in fdecs:
                cms.append(cstr(f.name))
            fd, err = try_fundef(f)
            if err:
                untranslated.append(err)
            ms.append(f"({cstr(f.name)}, {fd})")
        meta = ""
        for k in c.keywords:
            if k.arg == "metaclass" and isinstance(k.value, ast.Name):
                meta = k.value.id
        classes.append(dict(name=c.name, methods=ms, classmethods=cms, ctor=ctor, dataclass=dataclass, meta=meta,
                            dataclass_eq=dataclass and "__eq__" not in names, info=info, mod=m.rel))
    by_name = {c["name"]: c for c in classes}
    out_classes = []

    def resolve_generic(cname, mro):
        """(param, field) pairs of a generic constructor, following super().__init__(k=p)."""
        c = by_name[cname]
        info = c["info"]
        pairs = [(src[1], field) for field, src in info["fields"] if src[0] == "param"]
        if "super_map" in info:
            for b in mro[1:]:
                if b in by_name and by_name[b]["ctor"] is not None:
                    if by_name[b]["ctor"] != "GENERIC":
                        return None
                    base_pairs = resolve_generic(b, c3(b, bases_of))
                    if base_pairs is None:
                        return None
                    for bp, bf in base_pairs:
                        if bp in info["super_map"]:
                            pairs.append((info["super_map"][bp], bf))
                    break
            else:
                return None
        order = {p: i for i, p in enumerate(info["params"])}
        pairs.sort(key=lambda pf: order[pf[0]])
        if [p for p, _ in pairs] != info["params"]:
            return None           # a parameter stored twice or not at all: outside the shape
        return pairs

    for c in classes:
        mro = c3(c["name"], bases_of)
        ctor = c["ctor"]
        owner = c["name"]
        if ctor is None:
            for b in mro[1:]:
                if b in by_name and by_name[b]["ctor"] is not None:
                    ctor = by_name[b]["ctor"]
                    owner = b
                    break
            else:
                ctor = "CtorNone"
        if ctor == "GENERIC":
            pairs = resolve_generic(owner, c3(owner, bases_of))
            if pairs is None:
                ctor = "CtorNone"
                untranslated.append(f"{c['mod']}: __init__ of {owner} not resolvable")
            else:
                ctor = "(CtorFields " + clist([f"({cstr(p)}, {cstr(f)})" for p, f in pairs]) + ")"
        out_classes.append(
            f"{{| c_name := {cstr(c['name'])}; c_mro := {clist([cstr(x) for x in mro])};\n"
            f"     c_methods := {clist(c['methods'])};\n"
            f"     c_classmethods := {clist(c['classmethods'])}; c_ctor := {ctor};\n"
            f"     c_dataclass := {'true' if c['dataclass'] else 'false'}; "
            f"c_dataclass_eq := {'true' if c['dataclass_eq'] else 'false'}; "
            f"c_meta := {cstr(next((by_name[b]['meta'] for b in mro if b in by_name and by_name[b]['meta']), ''))} |}}")
    for m in mods:
        CUR_FILE = m.rel
        for f in m.funcs:
            if f.name in skip_funcs:
                continue
            fd, err = try_fundef(f)
            if err:
                untranslated.append(err)
            funs.append(f"({cstr(f.name)}, {fd})")
    if notes is not None:
        notes.extend(untranslated)
    return dict(enums=enums, enum_methods=enum_methods, classes=out_classes, funs=funs,
                registry=registry, raw_classes=classes)


def write_if_changed(path, text):
    old = None
    if os.path.exists(path):
        with open(path, encoding="utf-8") as f:
            old = f.read()
    if old != text:
        with open(path, "w", encoding="utf-8") as f:
            f.write(text)
        return True
    return False


HEADER = """(* GENERATED by tools/extract.py from {src} -- do not edit. *)
From Coq Require Import ZArith List String.
From NadaV.PyMini Require Import PyMini.
Import ListNotations.
Open Scope string_scope.

"""


def registry_consts(mods, t):
    enum_vals = {}
    for m in mods:
        for c in m.classes:
            if "Enum" in base_names(c):
                for s0 in c.body:
                    if isinstance(s0, ast.Assign) and isinstance(s0.value, ast.Constant):
                        enum_vals[(c.name, s0.targets[0].id)] = s0.value.value
    reg = []
    for mode, base, cls in t["registry"]:
        if ("Mode", mode) not in enum_vals or ("BaseType", base) not in enum_vals:
            raise ExtractError("scalar_types.py", 0, f"registry refers to unknown enum member {mode}/{base}")
        reg.append(f"(VTuple [VEnum \"Mode\" {cstr(mode)} {cz(enum_vals[('Mode', mode)])}; "
                   f"VEnum \"BaseType\" {cstr(base)} {cz(enum_vals[('BaseType', base)])}], VClass {cstr(cls)})")
    return reg


def gen_scalar(repo, outdir, notes):
    mods = [Module(repo, "nada_dsl/nada_types/__init__.py"),
            Module(repo, "nada_dsl/operations.py"),
            Module(repo, "nada_dsl/program_io.py"),
            Module(repo, "nada_dsl/nada_types/scalar_types.py")]
    t = emit_class_table(mods, skip_funcs=("register_scalar_type",), notes=notes)
    enum_vals = {}
    for m in mods:
        for c in m.classes:
            if "Enum" in base_names(c):
                for s in c.body:
                    if isinstance(s, ast.Assign) and isinstance(s.value, ast.Constant):
                        enum_vals[(c.name, s.targets[0].id)] = s.value.value
    reg = registry_consts(mods, t)
    text = HEADER.format(src="nada_types/__init__.py, operations.py, program_io.py, nada_types/scalar_types.py")
    text += "Definition funs : list (string * fundef) :=\n  " + clist(["\n   " + f for f in t["funs"]]) + ".\n\n"
    text += "Definition classes : list classdef :=\n  " + clist(["\n   " + c for c in t["classes"]]) + ".\n\n"
    text += "Definition enums : list (string * list (string * Z)) :=\n  " + clist(t["enums"]) + ".\n\n"
    text += "Definition enum_methods : list (string * list (string * fundef)) :=\n  " + clist(t["enum_methods"]) + ".\n\n"
    text += "Definition registry : list (string * string * string) :=\n  " + clist(
        [f"({cstr(m)}, {cstr(b)}, {cstr(c)})" for m, b, c in t["registry"]]) + ".\n\n"
    text += "Definition consts : list (string * value) :=\n  [(\"SCALAR_TYPES\", VDict " + clist(reg) + ")].\n\n"
    text += ("Definition G : genv := {| g_funs := funs; g_classes := classes; g_enums := enums;\n"
             "  g_enum_methods := enum_methods; g_consts := consts |}.\n")
    write_if_changed(os.path.join(outdir, "GenScalar.v"), text)
    return t


# ====================================================================== structural tables
# Tables of *source shapes* (normalised by ast.unparse) for the code the hand-written model
# Model/Trace.v, Model/Compile.v mirrors.  Proofs/TableObligations.v proves that they equal the
# tables the model was written against; a change in the code breaks that obligation.

def strip_self(node):
    txt = ast.unparse(node).replace("\n", " ; ")
    return txt.replace("self.", "")


def find_class_node(mod, name):
    for c in mod.classes:
        if c.name == name:
            return c
    return None


def method(c, name):
    for f in methods_of(c):
        if f.name == name:
            return f
    return None


def body_nodoc(fn):
    return [s for s in fn.body if not is_docstring(s)]


def gen_ast_tables(repo, outdir, notes):
    global CUR_FILE
    au = Module(repo, "nada_dsl/ast_util.py")
    CUR_FILE = au.rel
    bases = {c.name: base_names(c) for c in au.classes}

    def inherits_ast(name):
        return name == "ASTOperation" or any(inherits_ast(b) for b in bases.get(name, []))
    child_fields, to_mirs = [], []
    for c in au.classes:
        if not inherits_ast(c.name) or c.name == "ASTOperation":
            continue
        # child_operations (own or inherited through the single base chain)
        cur, co = c, None
        while cur is not None and co is None:
            co = method(cur, "child_operations")
            if co is None:
                b = [x for x in bases[cur.name] if x in bases]
                cur = find_class_node(au, b[0]) if b else None
        if co is None:
            fail(c, f"{c.name}: child_operations not found")
        body = body_nodoc(co)
        if len(body) != 1 or not isinstance(body[0], ast.Return):
            fail(co, f"{c.name}.child_operations is not a single return")
        child_fields.append(f"({cstr(c.name)}, {cstr(strip_self(body[0].value))})")
        tm = method(c, "to_mir")
        if tm is None:
            fail(c, f"{c.name}: to_mir not defined")
        body = body_nodoc(tm)
        ret = body[-1]
        if not isinstance(ret, ast.Return) or not isinstance(ret.value, ast.Dict):
            fail(tm, f"{c.name}.to_mir does not end in a dict display")
        d = ret.value
        if len(d.keys) == 1 and isinstance(d.values[0], ast.Dict):
            variant = strip_self(d.keys[0])
            inner = d.values[0]
        else:
            variant = "<flat>"
            inner = d
        pairs = [f"({cstr(strip_self(k))}, {cstr(strip_self(v))})" for k, v in zip(inner.keys, inner.values)]
        pre = [cstr(strip_self(s0)) for s0 in body[:-1]]
        to_mirs.append(f"({cstr(c.name)}, ({cstr(variant)}, {clist(pairs)}, {clist(pre)}))")
    # literal name construction
    lit = find_class_node(au, "LiteralASTOperation")
    lit_init = [cstr(strip_self(s0)) for s0 in body_nodoc(method(lit, "__init__"))]
    nid = next(f for f in au.funcs if f.name == "next_operation_id")
    next_id = [cstr(ast.unparse(s0)) for s0 in body_nodoc(nid)]

    # store_in_ast maps and allocation sites
    stores, allocs = [], []
    for rel in ("nada_dsl/operations.py", "nada_dsl/nada_types/collections.py", "nada_dsl/nada_types/function.py",
                "nada_dsl/program_io.py"):
        m = Module(repo, rel)
        CUR_FILE = rel
        for c in m.classes:
            st = method(c, "store_in_ast")
            if st is not None:
                body = body_nodoc(st)
                if len(body) != 1 or not isinstance(body[0], ast.Assign):
                    fail(st, f"{c.name}.store_in_ast is not a single assignment")
                tgt, val = body[0].targets[0], body[0].value
                if not (isinstance(val, ast.Call) and isinstance(val.func, ast.Name) and not val.args):
                    fail(st, f"{c.name}.store_in_ast does not build an AST record by keywords")
                kws = [f"({cstr(k.arg)}, {cstr(strip_self(k.value))})" for k in val.keywords]
                stores.append(f"({cstr(c.name)}, ({cstr(strip_self(tgt))}, {cstr(val.func.id)}, {clist(kws)}))")
            init = method(c, "__init__")
            if init is not None:
                src = [strip_self(s0) for s0 in body_nodoc(init)]
                if any("next_operation_id()" in x for x in src):
                    allocs.append(f"({cstr(c.name)}, {clist([cstr(x) for x in src])})")
    text = HEADER.format(src="ast_util.py, operations.py, collections.py, function.py, program_io.py (structure tables)")
    text += "Definition ast_child_fields : list (string * string) :=\n  " + clist(["\n   " + x for x in child_fields]) + ".\n\n"
    text += ("Definition ast_to_mir : list (string * (string * list (string * string) * list string)) :=\n  "
             + clist(["\n   " + x for x in to_mirs]) + ".\n\n")
    text += "Definition literal_init : list string :=\n  " + clist(["\n   " + x for x in lit_init]) + ".\n\n"
    text += "Definition next_operation_id_body : list string := " + clist(next_id) + ".\n\n"
    text += ("Definition store_maps : list (string * (string * string * list (string * string))) :=\n  "
             + clist(["\n   " + x for x in stores]) + ".\n\n")
    text += "Definition alloc_inits : list (string * list string) :=\n  " + clist(["\n   " + x for x in allocs]) + ".\n"
    write_if_changed(os.path.join(outdir, "GenAst.v"), text)


def stmts_src(body):
    return clist(["\n   " + cstr(ast.unparse(s0).replace("\n", " ; ")) for s0 in body if not is_docstring(s0)])


def gen_frontend_tables(repo, outdir, notes):
    global CUR_FILE
    cf = Module(repo, "nada_dsl/compiler_frontend.py")
    CUR_FILE = cf.rel
    fn = {f.name: f for f in cf.funcs}
    text = HEADER.format(src="compiler_frontend.py, nada_types/function.py, nada_types/collections.py (structure tables)")
    main = fn["nada_dsl_to_nada_mir"]
    cleared = []
    for s0 in body_nodoc(main):
        if (isinstance(s0, ast.Expr) and isinstance(s0.value, ast.Call) and isinstance(s0.value.func, ast.Attribute)
                and s0.value.func.attr == "clear" and isinstance(s0.value.func.value, ast.Name)):
            cleared.append(s0.value.func.value.id)
        elif isinstance(s0, ast.Expr) and ast.unparse(s0) == "SourceRef.reset_refs()":
            cleared.append("SourceRef.reset_refs")
        elif isinstance(s0, ast.For):
            break
    text += "Definition cleared : list string := " + clist([cstr(x) for x in cleared]) + ".\n\n"
    for name in ("nada_dsl_to_nada_mir", "to_party_list", "to_input_list", "to_literal_list", "to_mir_function_list",
                 "add_input_to_map", "traverse_and_process_operations", "process_operation", "nada_compile"):
        if name not in fn:
            raise ExtractError(cf.rel, 0, f"function {name} not found")
        text += f"Definition src_{name} : list string :=\n  {stmts_src(fn[name].body)}.\n\n"
    # module-level tables
    glob = []
    for s0 in cf.tree.body:
        if isinstance(s0, (ast.Assign, ast.AnnAssign)):
            glob.append(cstr(ast.unparse(s0)))
    text += "Definition frontend_globals : list string := " + clist(glob) + ".\n\n"

    fm = Module(repo, "nada_dsl/nada_types/function.py")
    CUR_FILE = fm.rel
    for cname, mname in (("NadaFunctionArg", "__init__"), ("NadaFunction", "__init__"), ("NadaFunction", "__call__"),
                         ("NadaFunctionCall", "__init__")):
        c = find_class_node(fm, cname)
        text += f"Definition src_{cname}_{mname.strip('_')} : list string :=\n  {stmts_src(method(c, mname).body)}.\n\n"
    ffn = {f.name: f for f in fm.funcs}
    for name in ("contained_types", "nada_fn"):
        text += f"Definition src_{name} : list string :=\n  {stmts_src(ffn[name].body)}.\n\n"

    cm = Module(repo, "nada_dsl/nada_types/collections.py")
    CUR_FILE = cm.rel
    cfn = {f.name: f for f in cm.funcs}
    for name in ("is_primitive_integer", "_generate_accessor", "unzip", "get_inner_type"):
        text += f"Definition src_{name.strip('_')} : list string :=\n  {stmts_src(cfn[name].body)}.\n\n"
    for cname, ms in (("Collection", ["to_mir", "retrieve_inner_type"]),
                      ("Array", ["__init__", "__iter__", "map", "reduce", "zip", "inner_product", "new", "init_as_template_type"]),
                      ("Tuple", ["__init__", "new"]), ("NTuple", ["__init__", "new", "__getitem__"]),
                      ("Object", ["__init__", "new", "__getattr__"]), ("ArrayType", ["to_mir"]), ("TupleType", ["to_mir"])):
        c = find_class_node(cm, cname)
        for mname in ms:
            mm = method(c, mname)
            if mm is None:
                raise ExtractError(cm.rel, c.lineno, f"{cname}.{mname} not found")
            text += f"Definition src_{cname}_{mname.strip('_')} : list string :=\n  {stmts_src(mm.body)}.\n\n"
    pm = Module(repo, "nada_dsl/program_io.py")
    CUR_FILE = pm.rel
    for cname in ("Input", "Literal", "Output"):
        c = find_class_node(pm, cname)
        text += f"Definition src_{cname}_init : list string :=\n  {stmts_src(method(c, '__init__').body)}.\n\n"
    nm = Module(repo, "nada_dsl/nada_types/__init__.py")
    CUR_FILE = nm.rel
    c = find_class_node(nm, "NadaType")
    for mname in ("__init__", "to_mir", "class_to_mir", "__bool__"):
        text += f"Definition src_NadaType_{mname.strip('_')} : list string :=\n  {stmts_src(method(c, mname).body)}.\n\n"
    # compile.py: entry points and the __main__ decision tree; timer.py: the clocks
    cp = Module(repo, "nada_dsl/compile.py")
    CUR_FILE = cp.rel
    cpf = {f.name: f for f in cp.funcs}
    for name in ("compile_script", "compile_string", "print_output"):
        text += f"Definition src_{name} : list string :=\n  {stmts_src(cpf[name].body)}.\n\n"
    mains = [n for n in cp.tree.body if isinstance(n, ast.If) and ast.unparse(n.test) == "__name__ == '__main__'"]
    if len(mains) != 1:
        raise ExtractError(cp.rel, 0, "no unique __main__ block")
    text += f"Definition src_compile_main : list string :=\n  {stmts_src(mains[0].body)}.\n\n"
    tm = Module(repo, "nada_dsl/timer.py")
    CUR_FILE = tm.rel
    for cname, ms in (("Clock", ["start", "stop", "report"]), ("DefaultClock", ["__init__", "start", "stop", "report"]),
                      ("Timer", ["__init__", "enable", "is_enabled", "start", "stop", "report"])):
        c = find_class_node(tm, cname)
        for mname in ms:
            text += f"Definition src_{cname}_{mname.strip('_')} : list string :=\n  {stmts_src(method(c, mname).body)}.\n\n"
    write_if_changed(os.path.join(outdir, "GenFrontend.v"), text)


def gen_source_ref(repo, outdir, notes):
    """Shape recognition of SourceRef.back_frame / try_get_line_info (fail closed)."""
    global CUR_FILE
    m = Module(repo, "nada_dsl/source_ref.py")
    CUR_FILE = m.rel
    c = find_class_node(m, "SourceRef")
    bf = method(c, "back_frame")
    body = body_nodoc(bf)
    first = body[0]
    if not (isinstance(first, ast.Assign) and isinstance(first.targets[0], ast.Name)):
        fail(first, "back_frame: first statement is not the frame selection")
    fvar = first.targets[0].id
    hops, e = 0, first.value
    while isinstance(e, ast.Attribute) and e.attr == "f_back":
        hops += 1
        e = e.value
    if ast.unparse(e) != "inspect.currentframe()":
        fail(first, "back_frame: frame selection does not start from inspect.currentframe()")
    walks, walk_pred = False, ""
    rest = body[1:]
    if rest and isinstance(rest[0], ast.While):
        w = rest[0]
        if not (len(w.body) == 1 and ast.unparse(w.body[0]) == f"{fvar} = {fvar}.f_back" and not w.orelse
                and isinstance(w.test, ast.BoolOp) and isinstance(w.test.op, ast.And) and len(w.test.values) == 2
                and ast.unparse(w.test.values[0]) == f"{fvar}.f_back is not None"):
            fail(w, "back_frame: unrecognised frame walk")
        walks, walk_pred = True, ast.unparse(w.test.values[1])
        rest = rest[1:]
    rest_src = [ast.unparse(s0) for s0 in rest]
    tg = method(c, "try_get_line_info")
    tb = body_nodoc(tg)
    # locate: lines = src.splitlines(); if lineno OP len(lines): offset = 0; for i in range(lineno - R): offset += len(lines[i]) + K; return offset, len(lines[lineno - J])
    idx = next((i for i, s0 in enumerate(tb) if ast.unparse(s0).startswith("lines = ")), None)
    if idx is None:
        fail(tg, "try_get_line_info: no `lines = ...`")
    split_src = ast.unparse(tb[idx].value)
    iff = tb[idx + 1]
    if not (isinstance(iff, ast.If) and isinstance(iff.test, ast.Compare) and len(iff.test.ops) == 1
            and ast.unparse(iff.test.left) == "lineno" and ast.unparse(iff.test.comparators[0]) == "len(lines)"):
        fail(iff, "try_get_line_info: unrecognised line guard")
    op = {ast.Lt: "CLt", ast.LtE: "CLe"}.get(type(iff.test.ops[0]))
    if op is None:
        fail(iff, "try_get_line_info: guard operator")
    ib = iff.body
    pat_ok = (len(ib) == 3 and ast.unparse(ib[0]) == "offset = 0" and isinstance(ib[1], ast.For)
              and isinstance(ib[2], ast.Return))
    if not pat_ok:
        fail(iff, "try_get_line_info: unrecognised accumulation")
    loop = ib[1]
    import re as _re
    mm = _re.fullmatch(r"range\(lineno - (\d+)\)", ast.unparse(loop.iter))
    aa = _re.fullmatch(r"offset \+= len\(lines\[i\]\) \+ (\d+)", ast.unparse(loop.body[0])) if len(loop.body) == 1 else None
    rr = _re.fullmatch(r"return \(offset, len\(lines\[lineno - (\d+)\]\)\)", ast.unparse(ib[2]))
    if not (mm and aa and rr and ast.unparse(loop.target) == "i"):
        fail(loop, "try_get_line_info: unrecognised accumulation loop")
    pre = [ast.unparse(s0).replace("\n", " ; ") for s0 in tb[:idx]]
    tail = [ast.unparse(s0) for s0 in tb[idx + 2:]]
    # every back_frame() call site of the package, with the number of chained calls
    sites = []
    for root, _, files in os.walk(os.path.join(repo, "nada_dsl")):
        for f in sorted(files):
            if not f.endswith(".py") or "audit" in root:
                continue
            rel = os.path.relpath(os.path.join(root, f), repo)
            tree = ast.parse(open(os.path.join(root, f), encoding="utf-8").read())
            for fn in ast.walk(tree):
                if isinstance(fn, (ast.FunctionDef,)):
                    for n in ast.walk(fn):
                        d = back_frame_depth(n)
                        if d is not None and not (isinstance(getattr(n, "_parent", None), ast.Attribute)):
                            sites.append((rel, fn.name, n.lineno, d))
    # keep only maximal chains (a chain of depth 2 contains a depth-1 call at the same position)
    best = {}
    for rel, fname, line, d in sites:
        k = (rel, fname, line)
        best[k] = max(best.get(k, 0), d)
    text = HEADER.format(src="source_ref.py (shape recognition) and every SourceRef.back_frame() call site")
    text += f"Definition bf_hops : Z := {cz(hops)}.\nDefinition bf_walks : bool := {'true' if walks else 'false'}.\n"
    text += f"Definition bf_walk_pred : string := {cstr(walk_pred)}.\n"
    helpers = [cstr(ast.unparse(n).replace("\n", " ; ")) for n in m.tree.body
               if (isinstance(n, ast.FunctionDef) and n.name.startswith("_"))
               or (isinstance(n, ast.Assign) and ast.unparse(n.targets[0]).startswith("_"))]
    text += "Definition sr_private_helpers : list string := " + clist(helpers) + ".\n"
    # ---- the process-global source tables: what reset_refs clears, whether get_sources filters by the indexed
    # references, whether the text cache is validated by path, the key of to_index
    def opt_method(name):
        return next((n for n in c.body if isinstance(n, ast.FunctionDef) and n.name == name), None)
    rr_ = opt_method("reset_refs")
    cleared_by_reset = []
    if rr_ is not None:
        for s0 in body_nodoc(rr_):
            u = ast.unparse(s0)
            mm_ = _re.fullmatch(r"(\w+)\.clear\(\)", u)
            if mm_:
                cleared_by_reset.append(mm_.group(1))
            elif u == "next_index = 0":
                cleared_by_reset.append("next_index")
            elif isinstance(s0, ast.Global):
                pass
            else:
                fail(s0, "reset_refs: unrecognised statement")
    gs = opt_method("get_sources")
    gsb = [ast.unparse(s0) for s0 in body_nodoc(gs)] if gs is not None else []
    filtered = gsb == ["used = {ref['file'] for ref in REFS}", "return {name: src for name, src in USED_SOURCES.items() if name in used}"]
    if not filtered and gsb != ["return USED_SOURCES"]:
        fail(gs, "get_sources: unrecognised body")
    # validated by path AND modification stamp (mtime, size): stamp = (path, stat.st_mtime_ns, stat.st_size)
    by_path = any("_SOURCE_PATHS.get(filename) != stamp" in x for x in pre) and any("_SOURCE_PATHS[filename] = stamp" in x for x in pre) \
        and any("stamp = (path, stat.st_mtime_ns, stat.st_size)" in x for x in pre) and any("stat = os.stat(path)" in x for x in pre) \
        and any(x.startswith("path = backend_frame.f_code.co_filename") for x in pre)
    ti = opt_method("to_index")
    tib = [ast.unparse(s0).replace("\n", " ; ") for s0 in body_nodoc(ti)]
    if tib != ["global next_index", "key = self.to_key()", "value = self.to_value()", "if key in index_map: ;     return index_map[key]",
               "index_map[key] = next_index", "REFS.append(value)", "next_index += 1", "return index_map[key]"]:
        fail(ti, "to_index: unrecognised body")
    text += "Definition sr_reset_clears : list string := " + clist([cstr(x) for x in cleared_by_reset]) + ".\n"
    text += f"Definition sr_sources_filtered : bool := {'true' if filtered else 'false'}.\n"
    text += f"Definition sr_cache_checks_path : bool := {'true' if by_path else 'false'}.\n"
    text += "Definition bf_rest : list string := " + clist([cstr(x) for x in rest_src]) + ".\n\n"
    text += f"Definition li_split : string := {cstr(split_src)}.\n"
    text += f"Definition li_guard_le : bool := {'true' if op == 'CLe' else 'false'}.\n"
    text += f"Definition li_range_minus : Z := {cz(int(mm.group(1)))}.\nDefinition li_plus : Z := {cz(int(aa.group(1)))}.\n"
    text += f"Definition li_index_minus : Z := {cz(int(rr.group(1)))}.\n"
    text += "Definition li_pre : list string := " + clist([cstr(x) for x in pre]) + ".\n"
    text += "Definition li_tail : list string := " + clist([cstr(x) for x in tail]) + ".\n\n"
    text += ("Definition back_frame_sites : list (string * string * Z) :=\n  "
             + clist([f"({cstr(rel)}, {cstr(fn)}, {cz(d)})" for (rel, fn, line), d in sorted(best.items())]) + ".\n")
    write_if_changed(os.path.join(outdir, "GenSourceRef.v"), text)


def gen_abstract(repo, outdir, notes):
    """audit/abstract.py: the audit classes (metaclass ordering, operator bodies)"""
    mods = [Module(repo, "nada_dsl/audit/abstract.py")]
    local = []
    t = emit_class_table(mods, skip_funcs=("signature",), notes=local)
    text = HEADER.format(src="audit/abstract.py")
    text += "Definition classes : list classdef :=\n  " + clist(["\n   " + c for c in t["classes"]]) + ".\n\n"
    text += "Definition funs : list (string * fundef) :=\n  " + clist(["\n   " + f for f in t["funs"]]) + ".\n\n"
    text += ("Definition GA : genv := {| g_funs := funs; g_classes := classes; g_enums := [];\n"
             "  g_enum_methods := []; g_consts := [] |}.\n")
    text += "Definition untranslated : list string := " + clist([cstr(x.split(': ', 1)[-1][:80]) for x in local]) + ".\n"
    write_if_changed(os.path.join(outdir, "GenAbstract.v"), text)


def gen_audit(repo, outdir, notes):
    """audit/strict.py, report.py, common.py: dynamic-code calls, the subscript-target loop, static type tables"""
    global CUR_FILE
    dyn = []
    for rel in ("nada_dsl/audit/strict.py", "nada_dsl/audit/report.py", "nada_dsl/audit/common.py", "nada_dsl/audit/__init__.py"):
        m = Module(repo, rel)
        for fn in ast.walk(m.tree):
            if isinstance(fn, ast.FunctionDef):
                for n in ast.walk(fn):
                    if isinstance(n, ast.Call) and isinstance(n.func, ast.Name) and n.func.id in ("eval", "exec", "compile", "__import__"):
                        dyn.append(f"({cstr(rel)}, {cstr(fn.name)}, {cstr(n.func.id)})")
    st = Module(repo, "nada_dsl/audit/strict.py")
    CUR_FILE = st.rel
    types_fn = next(f for f in st.funcs if f.name == "types")
    loops = [n for n in ast.walk(types_fn) if isinstance(n, ast.While)]
    if len(loops) != 1:
        raise ExtractError(st.rel, types_fn.lineno, f"expected exactly one while loop in types(), found {len(loops)}")
    w = loops[0]
    if ast.unparse(w.test) != "isinstance(target_, ast.Subscript)":
        fail(w, "unrecognised loop condition in types()")
    last = w.body[-1]
    if not (isinstance(last, ast.If) and ast.unparse(last.test) == "isinstance(target_.value, (ast.Name, ast.Subscript))"
            and len(last.body) == 1 and ast.unparse(last.body[0]) == "target_ = target_.value"):
        fail(w, "unrecognised descent step of the subscript-target loop")
    if not last.orelse:
        breaks = False
    elif len(last.orelse) == 1 and isinstance(last.orelse[0], ast.Break):
        breaks = True
    else:
        fail(last, "unrecognised else branch of the descent step")
    # any other assignment to target_ inside the loop would invalidate the model
    assigns = [ast.unparse(n) for n in ast.walk(w) if isinstance(n, ast.Assign) and ast.unparse(n.targets[0]) == "target_"]
    if assigns != ["target_ = target_.value"]:
        fail(w, "the loop assigns target_ in an unrecognised way")
    nfor = len([n for n in ast.walk(types_fn) if isinstance(n, (ast.For, ast.While))])
    text = HEADER.format(src="audit/strict.py, audit/report.py, audit/common.py")
    text += "Definition dynamic_code_calls : list (string * string * string) := " + clist(dyn) + ".\n"
    text += f"Definition subscript_loop_breaks : bool := {'true' if breaks else 'false'}.\n"
    text += "Definition loop_prefix : list string := " + clist([cstr(ast.unparse(x).replace(chr(10), ' ; ')) for x in w.body[:-1]]) + ".\n"
    fns = {f.name: f for f in st.funcs}
    for name in ("_types_base", "_types_list_monomorphic", "_types_list_monomorphic_depth", "_types_monomorphic", "strict", "rules",
                 "_rules_restrictions_descendants"):
        text += f"Definition src_{name.strip('_')} : list string :=\n  {stmts_src(fns[name].body)}.\n"
    cm = Module(repo, "nada_dsl/audit/common.py")
    cfn = {f.name: f for f in cm.funcs}
    for name in ("typeerror_demote", "audits", "rules_no_restriction", "unify"):
        text += f"Definition src_{name} : list string :=\n  {stmts_src(cfn[name].body)}.\n"
    rp = Module(repo, "nada_dsl/audit/report.py")
    rfn = {f.name: f for f in rp.funcs}
    for name in ("parse", "locations", "type_to_str", "enrich_from_type", "enrich_syntaxrestriction", "enrich_keyword", "enrich_fromaudits"):
        text += f"Definition src_{name} : list string :=\n  {stmts_src(rfn[name].body)}.\n"
    # the static result-type tables as PyMini functions (used by C14)
    tfuns = []
    for name in ("_types_binop_mult_add_sub", "_types_compare"):
        fd, err = try_fundef(fns[name])
        if err:
            notes.append(err)
        tfuns.append(f"({cstr(name)}, {fd})")
    cfd, err = try_fundef(cfn["typeerror_demote"])
    tfuns.append(f"({cstr('typeerror_demote')}, {cfd})")
    text += "Definition static_funs : list (string * fundef) :=\n  " + clist(["\n   " + x for x in tfuns]) + ".\n"
    # the static typing rule of cond.if_else(a, b): per condition class, the expression giving the result type
    ife = None
    for n in ast.walk(types_fn):
        if isinstance(n, ast.If) and ast.unparse(n.test) == "a.func.attr == 'if_else'":
            ife = n
    if ife is None:
        raise ExtractError(st.rel, types_fn.lineno, "if_else branch of types() not found")
    inner = ife.body[0]
    if not (isinstance(inner, ast.If) and ast.unparse(inner.test) == "len(a.args) == 2"):
        fail(ife, "unrecognised if_else block")
    chain = [x for x in inner.body if isinstance(x, ast.If)]
    if len(chain) != 1:
        fail(inner, "unrecognised if_else block")
    rules, rule_exprs, cur = [], [], chain[0]
    while True:
        mm = __import__("re").fullmatch(r"t_v == (\w+)", ast.unparse(cur.test))
        if not mm:
            fail(cur, "unrecognised condition test in the if_else rule")
        br = cur.body[0]
        if not (isinstance(br, ast.If) and len(br.body) == 1 and isinstance(br.body[0], ast.Assign)):
            fail(cur, "unrecognised branch in the if_else rule")
        rules.append(f"({cstr(mm.group(1))}, {cstr(ast.unparse(br.test))}, {cstr(ast.unparse(br.body[0].value))})")
        try:
            rule_exprs.append(f"({cstr(mm.group(1))}, {expr(br.test)}, {expr(br.body[0].value)})")
        except ExtractError as e:
            notes.append(str(e))
            rule_exprs.append(f"({cstr(mm.group(1))}, (EOpaque \"untranslated\"), (EOpaque \"untranslated\"))")
        if len(cur.orelse) == 1 and isinstance(cur.orelse[0], ast.If):
            cur = cur.orelse[0]
        else:
            break
    text += "Definition ifelse_static : list (string * string * string) :=\n  " + clist(rules) + ".\n"
    text += "Definition ifelse_static_exprs : list (string * expr * expr) :=\n  " + clist(rule_exprs) + ".\n"
    write_if_changed(os.path.join(outdir, "GenAudit.v"), text)


def gen_classes_all(repo, outdir, notes):
    """Class table of every Nada value class (scalars and collections): MRO, defined methods,
    dataclass-generated __eq__.  Used by C07 (obliviousness)."""
    mods = [Module(repo, "nada_dsl/nada_types/__init__.py"),
            Module(repo, "nada_dsl/operations.py"),
            Module(repo, "nada_dsl/program_io.py"),
            Module(repo, "nada_dsl/nada_types/scalar_types.py"),
            Module(repo, "nada_dsl/nada_types/collections.py")]
    local_notes = []
    t = emit_class_table(mods, skip_funcs=("register_scalar_type",), notes=local_notes)
    text = HEADER.format(src="nada_types/__init__.py, scalar_types.py, collections.py (class table)")
    text += "Definition classes : list classdef :=\n  " + clist(["\n   " + c for c in t["classes"]]) + ".\n\n"
    text += "Definition enums : list (string * list (string * Z)) :=\n  " + clist(t["enums"]) + ".\n\n"
    text += "Definition enum_methods : list (string * list (string * fundef)) :=\n  " + clist(t["enum_methods"]) + ".\n\n"
    text += "Definition funs : list (string * fundef) :=\n  " + clist(["\n   " + f for f in t["funs"]]) + ".\n\n"
    text += "Definition consts : list (string * value) :=\n  [(\"SCALAR_TYPES\", VDict " + clist(registry_consts(mods, t)) + ")].\n\n"
    text += ("Definition G : genv := {| g_funs := funs; g_classes := classes; g_enums := enums;\n"
             "  g_enum_methods := enum_methods; g_consts := consts |}.\n")
    write_if_changed(os.path.join(outdir, "GenClasses.v"), text)


def main():
    repo, outdir = sys.argv[1], sys.argv[2]
    os.makedirs(outdir, exist_ok=True)
    notes = []
    try:
        gen_scalar(repo, outdir, notes)
        gen_ast_tables(repo, outdir, notes)
        gen_frontend_tables(repo, outdir, notes)
        gen_classes_all(repo, outdir, notes)
        gen_source_ref(repo, outdir, notes)
        gen_abstract(repo, outdir, notes)
        gen_audit(repo, outdir, notes)
    except (ExtractError, KeyError, StopIteration, AttributeError) as e:
        print(f"EXTRACT-ERROR {e}")
        sys.exit(2)
    for n in notes:
        print(f"untranslated: {n}")


if __name__ == "__main__":
    main()
