"""Surface programs (the language of coq/Model/Surface.v): a type-directed random generator
(one PRNG), a printer to Python text for the implementation and a printer to Gallina for
the model.  Programs are dicts:  {"stmts": [...], "outs": [(name, party, var)], "tags": set}

types:  ("s", mode, base) | ("arr", elt, size|None) | ("tup", l, r) | ("nt", [t..]) | ("obj", [(k,t)..])
        | ("fn", [param types], ret)
"""
import random

from vlib import gstr, gz, glist

MODES = ["Const", "Public", "Secret"]
BASES = ["Bool", "Int", "UInt"]
CLS = {("Const", "Int"): "Integer", ("Const", "UInt"): "UnsignedInteger", ("Const", "Bool"): "Boolean",
       ("Public", "Int"): "PublicInteger", ("Public", "UInt"): "PublicUnsignedInteger", ("Public", "Bool"): "PublicBoolean",
       ("Secret", "Int"): "SecretInteger", ("Secret", "UInt"): "SecretUnsignedInteger", ("Secret", "Bool"): "SecretBoolean"}
RANK = {"Const": 1, "Public": 2, "Secret": 3}
PYOP = {"OAdd": "+", "OSub": "-", "OMul": "*", "ODiv": "/", "OMod": "%", "OPow": "**", "OLShift": "<<", "ORShift": ">>",
        "OLt": "<", "OGt": ">", "OLe": "<=", "OGe": ">=", "OEq": "==", "ONe": "!=", "OAnd": "&", "OOr": "|", "OXor": "^"}
ARITH = ["OAdd", "OSub", "OMul", "ODiv", "OMod"]
CMP = ["OLt", "OGt", "OLe", "OGe"]
EQ = ["OEq", "ONe"]
LOGIC = ["OAnd", "OOr", "OXor"]


def S(mode, base):
    return ("s", mode, base)


def is_scalar(t):
    return t[0] == "s"


def mx(*modes):
    return max(modes, key=lambda m: RANK[m])


# ------------------------------------------------------------------ typing (generator side only)

def type_binop(op, a, b):
    """Result type if the DSL accepts, else None.  Mirrors Spec/TypingSpec.v (principal types)."""
    if not (is_scalar(a) and is_scalar(b)):
        return None
    (_, ma, ba), (_, mb, bb) = a, b
    m = mx(ma, mb)
    num = ba != "Bool"
    if op in ARITH:
        return S(m, ba) if ba == bb and num else None
    if op == "OPow":
        return S(m, ba) if ba == bb and num and m != "Secret" else None
    if op in ("OLShift", "ORShift"):
        return S(m, ba) if num and bb == "UInt" and mb != "Secret" else None
    if op in CMP:
        return S(m, "Bool") if ba == bb and num else None
    if op in EQ:
        return S(m, "Bool") if ba == bb else None
    if op in LOGIC:
        return S(m, "Bool") if ba == bb == "Bool" else None
    if op == "OPublicEquals":
        ok = ba == bb and ma != "Const" and mb != "Const" and not (ma == "Secret" and ba == "Bool")
        return S("Public", "Bool") if ok else None
    if op == "OTruncPr":
        return S("Secret", ba) if ma == "Secret" and num and bb == "UInt" and mb != "Secret" else None
    return None


class Gen:
    def __init__(self, seed, profile="mixed"):
        self.rng = random.Random(seed)
        self.n = 0
        self.profile = profile
        self.tags = set()
        self.parties = ["P0", "P1", "P2"]
        self.input_names = set()

    def fresh(self, p="v"):
        self.n += 1
        return f"{p}{self.n}"

    # ---- environment helpers.  env: list of (var, type, info)
    def pick(self, env, pred):
        c = [e for e in env if pred(e[1])]
        return self.rng.choice(c) if c else None

    def scalar_vars(self, env):
        return [e for e in env if is_scalar(e[1])]

    def rand_scalar_type(self, allow_const=True):
        modes = MODES if allow_const else MODES[1:]
        return S(self.rng.choice(modes), self.rng.choices(BASES, [2, 5, 3])[0])

    def new_input(self, env, t=None, party=None):
        r = self.rng
        if t is None:
            t = self.rand_scalar_type(False)
            if r.random() < 0.25:
                t = ("arr", t, r.choice([1, 2, 3, 3, 5]))
                if r.random() < 0.15:
                    t = ("arr", t, r.choice([2, 3]))
        x = self.fresh()
        name = self.fresh("in")
        self.input_names.add(name)
        doc = r.choice(["", "", "doc " + name, 'with "quotes"', "  leading blanks and a trailing one ", "two\n    lines, the second indented\n", "\tafter a tab"])
        st = {"k": "input", "x": x, "name": name, "party": party or r.choice(self.parties), "doc": doc, "t": t}
        return st, t

    def new_lit(self, base=None):
        r = self.rng
        base = base or r.choices(BASES, [2, 5, 3])[0]
        if base == "Bool":
            v = r.randrange(2)
        elif base == "UInt":
            v = r.choice([0, 1, 2, 3, 7, 42, 2 ** 64 + 1])
        else:
            v = r.choice([0, 1, -1, 2, -5, 7, 42, -(2 ** 70)])
        return {"k": "lit", "x": self.fresh(), "b": base, "v": v}, S("Const", base)

    def ensure_scalar(self, env, out, want=None):
        """a scalar variable (of base `want` if given), creating an input/literal if needed"""
        c = [e for e in self.scalar_vars(env) if want is None or e[1][2] == want]
        if c and self.rng.random() < 0.85:
            return self.rng.choice(c)
        if self.rng.random() < 0.3:
            st, t = self.new_lit(want)
        else:
            t = S(self.rng.choice(MODES[1:]), want or self.rng.choices(BASES, [2, 5, 3])[0])
            st, t = self.new_input(env, t)
        out.append(st)
        env.append((st["x"], t, {}))
        return env[-1]

    # ---- one statement; appends to `out`, extends env
    def gen_stmt(self, env, out, depth, in_fn):
        r = self.rng
        kinds = ["bin"] * 8 + ["input"] * 3 + ["lit"] * 2 + ["ifelse", "not", "random", "topublic", "radd",
                 "pubeq", "truncpr", "arrnew", "tupnew", "ntnew", "objnew", "idx", "fld",
                 "zip", "unzip", "inner", "map", "reduce", "call", "def", "def"]
        k = r.choice(kinds)
        x = self.fresh()
        if k == "input":
            st, t = self.new_input(env)
            out.append(st); env.append((st["x"], t, {})); return
        if k == "lit":
            st, t = self.new_lit()
            out.append(st); env.append((st["x"], t, {})); return
        if k == "random":
            b = r.choice(BASES)
            out.append({"k": "random", "x": x, "b": b}); env.append((x, S("Secret", b), {})); return
        if k == "bin":
            a = self.ensure_scalar(env, out)
            base = a[1][2]
            if base == "Bool":
                op = r.choice(LOGIC + EQ)
                b = self.ensure_scalar(env, out, "Bool")
            else:
                op = r.choice(ARITH * 3 + CMP * 2 + EQ + ["OPow", "OLShift", "ORShift"])
                b = self.ensure_scalar(env, out, "UInt" if op in ("OLShift", "ORShift") else base)
            if r.random() < 0.06:                      # deliberately ill-typed
                b = self.ensure_scalar(env, out)
                self.tags.add("maybe-ill-typed")
            if op in ("ODiv", "OMod") and a[1][1] == "Const" and b[1][1] == "Const":
                # literal / literal: a fresh non-zero literal divisor (no ZeroDivisionError noise in the main stream)
                lb = {"k": "lit", "x": self.fresh(), "b": b[1][2], "v": r.choice([1, 2, 3, 7, 2 ** 64 + 1] + ([-2, -3] if b[1][2] == "Int" else []))}
                out.append(lb); b = (lb["x"], S("Const", b[1][2]), {"bits": 70}); env.append(b)
            if op in ("OPow", "OLShift", "ORShift") and b[1][1] == "Const":
                # keep folded powers / shifts small: a fresh small literal as exponent / amount
                lb = {"k": "lit", "x": self.fresh(), "b": b[1][2], "v": r.choice([0, 1, 2, 3, 5])}
                out.append(lb); b = (lb["x"], S("Const", b[1][2]), {"bits": 3}); env.append(b)
            t = type_binop(op, a[1], b[1])
            info = {}
            if t and t[1] == "Const":
                # keep the magnitude of folded literals bounded (Coq evaluates them in binary positive arithmetic)
                ba, bb = a[2].get("bits", 80), b[2].get("bits", 80)
                nb = {"OAdd": max(ba, bb) + 1, "OSub": max(ba, bb) + 1, "OMul": ba + bb, "OPow": ba * 5,
                      "OLShift": ba + 5}.get(op, max(ba, bb))
                if nb > 1500:
                    return
                info = {"bits": nb}
            out.append({"k": "bin", "x": x, "op": op, "a": a[0], "b": b[0]})
            if t: env.append((x, t, info))
            else: self.dead = True
            return
        if k in ("pubeq", "truncpr"):
            a = self.ensure_scalar(env, out)
            op = "OPublicEquals" if k == "pubeq" else "OTruncPr"
            b = self.ensure_scalar(env, out, "UInt" if k == "truncpr" else a[1][2])
            t = type_binop(op, a[1], b[1])
            if not t and r.random() < 0.8:
                return
            out.append({"k": "bin", "x": x, "op": op, "a": a[0], "b": b[0]})
            if t: env.append((x, t, {}))
            else: self.dead = True
            return
        if k == "not":
            a = self.ensure_scalar(env, out, "Bool")
            out.append({"k": "not", "x": x, "a": a[0]}); env.append((x, a[1], {})); return
        if k == "topublic":
            a = self.ensure_scalar(env, out)
            t = S("Public", a[1][2]) if a[1][1] == "Secret" else a[1]
            out.append({"k": "topublic", "x": x, "a": a[0]}); env.append((x, t, {})); return
        if k == "radd":
            a = self.ensure_scalar(env, out, r.choice(["Int", "UInt"]))
            kk = r.choice([0, 0, 5, -2]) if a[1][2] == "Int" else r.choice([0, 3])
            out.append({"k": "radd", "x": x, "n": kk, "a": a[0]}); env.append((x, a[1], {})); return
        if k == "ifelse":
            c = self.pick(env, lambda t: is_scalar(t) and t[2] == "Bool" and t[1] != "Const")
            if not c:
                a0 = self.ensure_scalar(env, out, "Int")
                if a0[1][1] == "Const":
                    return
                cx = self.fresh()
                out.append({"k": "bin", "x": cx, "op": "OLt", "a": a0[0], "b": a0[0]})
                c = (cx, S(a0[1][1], "Bool"), {}); env.append(c)
            base = r.choice(["Int", "UInt"])
            a = self.ensure_scalar(env, out, base); b = self.ensure_scalar(env, out, base)
            out.append({"k": "ifelse", "x": x, "c": c[0], "a": a[0], "b": b[0]})
            env.append((x, S(mx(c[1][1], a[1][1], b[1][1]), base), {})); return
        if k == "arrnew":
            a = self.pick(env, lambda t: t[0] in ("s", "arr", "tup"))
            if not a: return
            same = [e for e in env if e[1] == a[1]]
            es = [r.choice(same)[0] for _ in range(r.choice([1, 2, 3]))]
            out.append({"k": "arrnew", "x": x, "es": es}); env.append((x, ("arr", a[1], len(es)), {})); return
        if k == "tupnew":
            if len(env) < 1: return
            a, b = r.choice(env), r.choice(env)
            if a[1][0] == "fn" or b[1][0] == "fn": return
            out.append({"k": "tupnew", "x": x, "a": a[0], "b": b[0]}); env.append((x, ("tup", a[1], b[1]), {})); return
        if k == "ntnew":
            c = [e for e in env if e[1][0] != "fn"]
            if not c: return
            es = [r.choice(c) for _ in range(r.choice([1, 2, 3, 4]))]
            out.append({"k": "ntnew", "x": x, "es": [e[0] for e in es]})
            env.append((x, ("nt", [e[1] for e in es]), {"vals": [e for e in es]})); return
        if k == "objnew":
            c = [e for e in env if e[1][0] != "fn"]
            if not c: return
            es = [r.choice(c) for _ in range(r.choice([1, 2, 3]))]
            keys = r.sample(["zed", "alpha", "mid", "k1", "b"], len(es))
            out.append({"k": "objnew", "x": x, "fs": list(zip(keys, [e[0] for e in es]))})
            env.append((x, ("obj", list(zip(keys, [e[1] for e in es]))), {"vals": list(zip(keys, es))})); return
        if k == "idx":
            a = self.pick(env, lambda t: t[0] == "nt")
            if not a: return
            n = len(a[1][1])
            i = r.randrange(n)
            if r.random() < 0.08:
                i = r.choice([n, n + 1, -1, -n, -n - 1]); self.tags.add("odd-index")
            et = a[1][1][i] if -n <= i < n else None
            out.append({"k": "idx", "x": x, "a": a[0], "i": i})
            if et is None or et[0] == "tup": self.dead = True
            else: env.append((x, et, self.sub_info(a, i)))
            return
        if k == "fld":
            a = self.pick(env, lambda t: t[0] == "obj")
            if not a: return
            key, et = r.choice(a[1][1])
            if r.random() < 0.06:
                key, et = "zz", None; self.tags.add("missing-field")
            out.append({"k": "fld", "x": x, "a": a[0], "f": key})
            if et is None or et[0] == "tup": self.dead = True
            else: env.append((x, et, {}))
            return
        if k == "zip":
            a = self.pick(env, lambda t: t[0] == "arr" and t[2] is not None)
            if not a: return
            bs = [e for e in env if e[1][0] == "arr" and (e[1][2] == a[1][2] or r.random() < 0.05)]
            b = r.choice(bs)
            out.append({"k": "zip", "x": x, "a": a[0], "b": b[0]})
            if b[1][2] != a[1][2]: self.dead = True; self.tags.add("size-mismatch")
            else: env.append((x, ("arr", ("tup", a[1][1], b[1][1]), a[1][2]), {}))
            return
        if k == "unzip":
            a = self.pick(env, lambda t: t[0] == "arr" and t[1][0] == "tup")
            if not a: return
            l, rr = a[1][1][1], a[1][1][2]
            out.append({"k": "unzip", "x": x, "a": a[0]})
            env.append((x, ("tup", ("arr", l, a[1][2]), ("arr", rr, a[1][2])), {"unzipped": True})); return
        if k == "inner":
            a = self.pick(env, lambda t: t[0] == "arr" and is_scalar(t[1]) and t[1][2] != "Bool" and t[1][1] != "Const")
            if not a: return
            bs = [e for e in env if e[1][0] == "arr" and e[1][2] == a[1][2] and e[1][1] == a[1][1]]
            b = r.choice(bs)
            out.append({"k": "inner", "x": x, "a": a[0], "b": b[0]}); env.append((x, a[1][1], {})); return
        if k == "def":
            if depth >= 3: return
            self.gen_def(env, out, depth)
            return
        if k == "map":
            a = self.pick(env, lambda t: t[0] == "arr" and is_scalar(t[1]) and t[1][1] != "Const")
            if not a: return
            f = self.pick(env, lambda t: t[0] == "fn" and len(t[1]) == 1 and t[1][0] == a[1][1])
            if not f:
                f = self.gen_def(env, out, depth, params=[a[1][1]])
                if not f: return
            out.append({"k": "map", "x": x, "a": a[0], "f": f[0]}); env.append((x, ("arr", f[1][2], a[1][2]), {"mapped": True})); return
        if k == "reduce":
            a = self.pick(env, lambda t: t[0] == "arr" and is_scalar(t[1]) and t[1][1] != "Const")
            if not a: return
            f = self.pick(env, lambda t: t[0] == "fn" and len(t[1]) == 2 and t[1][1] == a[1][1] and t[1][0] == t[2])
            if not f:
                acc = S(a[1][1][1], a[1][1][2])
                f = self.gen_def(env, out, depth, params=[acc, a[1][1]], ret=acc)
                if not f: return
            init = self.pick(env, lambda t: t == f[1][2])
            if not init:
                st, t = self.new_input(env, f[1][2]); out.append(st); env.append((st["x"], t, {})); init = env[-1]
            out.append({"k": "reduce", "x": x, "a": a[0], "f": f[0], "init": init[0]}); env.append((x, f[1][2], {})); return
        if k == "call":
            f = self.pick(env, lambda t: t[0] == "fn")
            if not f:
                f = self.gen_def(env, out, depth)
                if not f: return
            args = []
            for pt in f[1][1]:
                a = self.pick(env, lambda t: t == pt)
                if not a:
                    if is_scalar(pt) and pt[1] == "Const":
                        st, t = self.new_lit(pt[2])
                    else:
                        st, t = self.new_input(env, pt if pt[0] != "arr" or pt[2] is not None else ("arr", pt[1], 3))
                    out.append(st); env.append((st["x"], t, {})); a = env[-1]
                args.append(a[0])
            out.append({"k": "call", "x": x, "f": f[0], "args": args, "kwargs": []}); env.append((x, f[1][2], {})); return

    def sub_info(self, a, i):
        return {}

    def gen_def(self, env, out, depth, params=None, ret=None):
        r = self.rng
        fname = self.fresh("f")
        if params is None:
            params = []
            for _ in range(r.choice([1, 1, 2, 2, 3])):
                t = self.rand_scalar_type(allow_const=(r.random() < 0.15))
                if r.random() < 0.12:
                    t = ("arr", S(r.choice(MODES[1:]), r.choice(["Int", "UInt"])), None)
                params.append(t)
            if all(is_scalar(t) and t[1] == "Const" for t in params):
                params.append(S("Secret", "Int"))
        pnames = [self.fresh("p") for _ in params]
        benv = [(n, t, {"param": True}) for n, t in zip(pnames, params)] + [e for e in env]
        body = []
        nst = r.choice([1, 1, 2, 3, 4])
        saved_dead = getattr(self, "dead", False)
        for _ in range(nst):
            self.gen_stmt(benv, body, depth + 1, True)
            if getattr(self, "dead", False):
                break
        # result: a non-literal scalar variable defined in the body or a parameter (truthful annotation)
        local = [e for e in benv if e[0] not in [v[0] for v in env] and is_scalar(e[1]) and e[1][1] != "Const"]
        if ret is not None:
            cands = [e for e in local if e[1] == ret]
            if not cands:
                # force the right type: combine params
                c2 = [e for e in benv if is_scalar(e[1]) and e[1][2] == ret[2] and e[1][1] != "Const"]
                p0 = [e for e in benv[:len(params)] if is_scalar(e[1]) and e[1][2] == ret[2]]
                if not p0: return None
                a = p0[0]; b = p0[-1]
                t = type_binop("OAdd", a[1], b[1]) if ret[2] != "Bool" else type_binop("OXor", a[1], b[1])
                if t != ret: return None
                xx = self.fresh()
                body.append({"k": "bin", "x": xx, "op": "OAdd" if ret[2] != "Bool" else "OXor", "a": a[0], "b": b[0]})
                cands = [(xx, t, {})]
            res = r.choice(cands)
        else:
            if not local: return None
            res = r.choice(local)
        st = {"k": "def", "f": fname, "params": list(zip(pnames, params)), "ret": res[1], "body": body, "res": res[0],
              "form": r.choice(["decorator", "decorator", "explicit"])}
        out.append(st)
        ft = ("fn", params, res[1])
        env.append((fname, ft, {}))
        return env[-1]

    def program(self, size):
        self.n = 0
        self.tags = set()
        self.dead = False
        env, out = [], []
        for _ in range(size):
            self.gen_stmt(env, out, 0, False)
            if self.dead:
                break
        r = self.rng
        cands = [e for e in env if e[1][0] != "fn"]
        if not cands:
            st, t = self.new_input(env); out.append(st); env.append((st["x"], t, {})); cands = [env[-1]]
        nout = r.choice([1, 1, 2, 3])
        # prefer late variables so that most of the program is live
        outs = []
        for i in range(nout):
            e = cands[-1 - r.randrange(min(len(cands), 4))] if r.random() < 0.7 else r.choice(cands)
            outs.append((f"out{i}", r.choice(self.parties), e[0]))
        return {"stmts": out, "outs": outs, "tags": sorted(self.tags), "dead": self.dead}


# ------------------------------------------------------------------ printers

def py_type(t):
    if t[0] == "s":
        return CLS[(t[1], t[2])]
    if t[0] == "arr":
        return f"Array[{py_type(t[1])}]"
    raise ValueError(t)


DUNDER = {"OAdd": "__add__", "OSub": "__sub__", "OMul": "__mul__", "ODiv": "__truediv__", "OMod": "__mod__", "OPow": "__pow__",
          "OLShift": "__lshift__", "ORShift": "__rshift__", "OLt": "__lt__", "OGt": "__gt__", "OLe": "__le__", "OGe": "__ge__",
          "OEq": "__eq__", "ONe": "__ne__", "OAnd": "__and__", "OOr": "__or__", "OXor": "__xor__"}
OPMOD = {"OAdd": "add", "OSub": "sub", "OMul": "mul", "ODiv": "truediv", "OMod": "mod", "OPow": "pow", "OLShift": "lshift",
         "ORShift": "rshift", "OLt": "lt", "OGt": "gt", "OLe": "le", "OGe": "ge", "OEq": "eq", "ONe": "ne", "OAnd": "and_", "OOr": "or_", "OXor": "xor"}
AUGMENTABLE = {"OAdd", "OSub", "OMul", "ODiv", "OMod", "OPow", "OLShift", "ORShift", "OAnd", "OOr", "OXor"}
# other spellings of the same program (styles): every one must compile to the same MIR, source locations apart
STYLES = ("dunder", "operator", "augmented", "inline-parties", "outputs-generator", "outputs-tuple", "helper-body", "aliases",
          "keyword-constructors", "parenthesised", "lambda-wrapped")


def py_party(name, style):
    return f"Party(name={name!r})" if style == "inline-parties" else f"party_{name}"


def py_input(st, style=None):
    def build(t):
        if t[0] == "s":
            if style == "keyword-constructors":
                doc = f"doc={st['doc']!r}, " if st["doc"] else ""
                return f"{CLS[(t[1], t[2])]}(Input({doc}party={py_party(st['party'], style)}, name={st['name']!r}))"
            doc = f", doc={st['doc']!r}" if st["doc"] else ""
            return f"{CLS[(t[1], t[2])]}(Input(name={st['name']!r}, party={py_party(st['party'], style)}{doc}))"
        return f"Array({build(t[1])}, size={t[2]})"
    return build(st["t"])


def py_stmts(stmts, ind, style=None):
    L = []
    p = " " * ind
    for s in stmts:
        k = s["k"]
        if style is not None:
            n0 = len(L)
            if k == "bin" and s["op"] in PYOP:
                if style == "dunder":
                    L.append(f"{p}{s['x']} = {s['a']}.{DUNDER[s['op']]}({s['b']})")
                elif style == "operator":
                    L.append(f"{p}{s['x']} = operator.{OPMOD[s['op']]}({s['a']}, {s['b']})")
                elif style == "augmented" and s["op"] in AUGMENTABLE:
                    L.append(f"{p}{s['x']} = {s['a']}")
                    L.append(f"{p}{s['x']} {PYOP[s['op']]}= {s['b']}")
                elif style == "parenthesised":
                    L.append(f"{p}{s['x']} = (({s['a']}) {PYOP[s['op']]} ({s['b']}))")
                elif style == "lambda-wrapped":
                    L.append(f"{p}{s['x']} = (lambda: {s['a']} {PYOP[s['op']]} {s['b']})()")
            elif k == "not" and style == "dunder":
                L.append(f"{p}{s['x']} = {s['a']}.__invert__()")
            elif k == "not" and style == "operator":
                L.append(f"{p}{s['x']} = operator.invert({s['a']})")
            elif k == "radd" and style == "dunder" and not (s["n"] == 0 and s.get("sum", True)):
                L.append(f"{p}{s['x']} = {s['a']}.__radd__({s['n']})")
            elif k == "input" and style in ("inline-parties", "keyword-constructors"):
                L.append(f"{p}{s['x']} = {py_input(s, style)}")
            elif k == "def":
                ps = s["params"]
                if s["form"] == "plain":
                    L.append(f"{p}def {s['f']}({', '.join(f'{n}: {py_type(t)}' for n, t in ps)}) -> {py_type(s['ret'])}:")
                    L += py_stmts(s["body"], ind + 4, style)
                    L.append(f"{p}    return {s['res']}")
                elif s["form"] == "decorator":
                    L.append(f"{p}@nada_fn")
                    L.append(f"{p}def {s['f']}({', '.join(f'{n}: {py_type(t)}' for n, t in ps)}) -> {py_type(s['ret'])}:")
                    L += py_stmts(s["body"], ind + 4, style)
                    L.append(f"{p}    return {s['res']}")
                else:
                    L.append(f"{p}def {s['f']}({', '.join(n for n, _ in ps)}):")
                    L += py_stmts(s["body"], ind + 4, style)
                    L.append(f"{p}    return {s['res']}")
                    args_ty = "{" + ", ".join(f"{n!r}: {py_type(t)}" for n, t in ps) + "}"
                    L.append(f"{p}{s['f']} = nada_fn({s['f']}, args_ty={args_ty}, return_ty={py_type(s['ret'])})")
            if len(L) > n0:
                if style == "aliases" and k != "def":
                    pass
                continue
            if style == "aliases" and k != "def":
                L += py_stmts([s], ind, None)
                L.append(f"{p}{s['x']}_alias = {s['x']}")
                continue
        if k == "lit":
            v = ("True" if s["v"] else "False") if s["b"] == "Bool" else str(s["v"])
            L.append(f"{p}{s['x']} = {CLS[('Const', s['b'])]}({v})")
        elif k == "input":
            L.append(f"{p}{s['x']} = {py_input(s)}")
        elif k == "random":
            L.append(f"{p}{s['x']} = {CLS[('Secret', s['b'])]}.random()")
        elif k == "bin":
            if s["op"] == "OPublicEquals":
                L.append(f"{p}{s['x']} = {s['a']}.public_equals({s['b']})")
            elif s["op"] == "OTruncPr":
                L.append(f"{p}{s['x']} = {s['a']}.trunc_pr({s['b']})")
            else:
                L.append(f"{p}{s['x']} = {s['a']} {PYOP[s['op']]} {s['b']}")
        elif k == "not":
            L.append(f"{p}{s['x']} = ~{s['a']}")
        elif k == "ifelse":
            L.append(f"{p}{s['x']} = {s['c']}.if_else({s['a']}, {s['b']})")
        elif k == "topublic":
            L.append(f"{p}{s['x']} = {s['a']}.to_public()")
        elif k == "radd":
            if s["n"] == 0 and s.get("sum", True):
                L.append(f"{p}{s['x']} = sum([{s['a']}])")
            else:
                L.append(f"{p}{s['x']} = {s['n']} + {s['a']}")
        elif k == "arrnew":
            L.append(f"{p}{s['x']} = Array.new({', '.join(s['es'])})")
        elif k == "tupnew":
            L.append(f"{p}{s['x']} = Tuple.new({s['a']}, {s['b']})")
        elif k == "ntnew":
            L.append(f"{p}{s['x']} = NTuple.new([{', '.join(s['es'])}])")
        elif k == "objnew":
            L.append(f"{p}{s['x']} = Object.new({{{', '.join(f'{k!r}: {v}' for k, v in s['fs'])}}})")
        elif k == "idx":
            L.append(f"{p}{s['x']} = {s['a']}[{s['i']}]")
        elif k == "fld":
            L.append(f"{p}{s['x']} = {s['a']}.{s['f']}")
        elif k == "map":
            L.append(f"{p}{s['x']} = {s['a']}.map({s['f']})")
        elif k == "reduce":
            L.append(f"{p}{s['x']} = {s['a']}.reduce({s['f']}, {s['init']})")
        elif k == "zip":
            L.append(f"{p}{s['x']} = {s['a']}.zip({s['b']})")
        elif k == "unzip":
            L.append(f"{p}{s['x']} = unzip({s['a']})")
        elif k == "inner":
            L.append(f"{p}{s['x']} = {s['a']}.inner_product({s['b']})")
        elif k == "call":
            parts = list(s["args"]) + [f"{n}={v}" for n, v in s.get("kwargs", [])]
            L.append(f"{p}{s['x']} = {s['f']}({', '.join(parts)})")
        elif k == "def":
            ps = s["params"]
            if s["form"] == "plain":
                L.append(f"{p}def {s['f']}({', '.join(f'{n}: {py_type(t)}' for n, t in ps)}) -> {py_type(s['ret'])}:")
                L += py_stmts(s["body"], ind + 4)
                L.append(f"{p}    return {s['res']}")
            elif s["form"] == "decorator":
                L.append(f"{p}@nada_fn")
                L.append(f"{p}def {s['f']}({', '.join(f'{n}: {py_type(t)}' for n, t in ps)}) -> {py_type(s['ret'])}:")
                L += py_stmts(s["body"], ind + 4)
                L.append(f"{p}    return {s['res']}")
            else:
                L.append(f"{p}def {s['f']}({', '.join(n for n, _ in ps)}):")
                L += py_stmts(s["body"], ind + 4)
                L.append(f"{p}    return {s['res']}")
                args_ty = "{" + ", ".join(f"{n!r}: {py_type(t)}" for n, t in ps) + "}"
                L.append(f"{p}{s['f']} = nada_fn({s['f']}, args_ty={args_ty}, return_ty={py_type(s['ret'])})")
        else:
            raise ValueError(k)
    return L


def parties_of(stmts, acc):
    for s in stmts:
        if s["k"] == "input":
            acc.add(s["party"])
        if s["k"] == "def":
            parties_of(s["body"], acc)
    return acc


def to_python(prog, style=None):
    ps = parties_of(prog["stmts"], set()) | {p for _, p, _ in prog["outs"]}
    L = ["from nada_dsl import *"] + (["import operator"] if style == "operator" else []) + ["", ""]
    ind = 4
    if style == "helper-body":
        L += ["def build_everything():"]
    else:
        L += ["def nada_main():"]
    if style != "inline-parties":
        for p in sorted(ps):
            L.append(f"    party_{p} = Party(name={p!r})")
    L += py_stmts(prog["stmts"], ind, style)
    if style == "keyword-constructors":
        outs = ", ".join(f"Output(party=party_{p}, name={n!r}, child={v})" for n, p, v in prog["outs"])
    else:
        outs = ", ".join(f"Output({v}, {n!r}, {py_party(p, style)})" for n, p, v in prog["outs"])
    if style == "outputs-generator":
        L.append(f"    return (o_ for o_ in [{outs}])")
    elif style == "outputs-tuple":
        L.append(f"    return ({outs},)")
    else:
        L.append(f"    return [{outs}]")
    if style == "helper-body":
        L += ["", "", "def nada_main():", "    return build_everything()"]
    return "\n".join(L) + "\n"


GM = {"Const": "MConst", "Public": "MPublic", "Secret": "MSecret"}
GB = {"Bool": "BBool", "Int": "BInt", "UInt": "BUInt"}


def g_ity(t):
    if t[0] == "s":
        return f"(IScalar ({GM[t[1]]}, {GB[t[2]]}))"
    if t[0] == "arr":
        sz = "None" if t[2] is None else f"(Some {gz(t[2])})"
        return f"(IArray {g_ity(t[1])} {sz})"
    raise ValueError(t)


def g_stmt(s):
    k = s["k"]
    x = gstr(s.get("x", ""))
    sl = lambda r: f"(SLet {x} {r})"
    if k == "lit":
        return sl(f"(RLit {GB[s['b']]} {gz(s['v'])})")
    if k == "input":
        return sl(f"(RInput {gstr(s['name'])} {gstr(s['party'])} {gstr(s['doc'])} {g_ity(s['t'])})")
    if k == "random":
        return sl(f"(RRandom {GB[s['b']]})")
    if k == "bin":
        return sl(f"(RBin {s['op']} {gstr(s['a'])} {gstr(s['b'])})")
    if k == "not":
        return sl(f"(RNot {gstr(s['a'])})")
    if k == "ifelse":
        return sl(f"(RIfElse {gstr(s['c'])} {gstr(s['a'])} {gstr(s['b'])})")
    if k == "topublic":
        return sl(f"(RToPublic {gstr(s['a'])})")
    if k == "radd":
        return sl(f"(RRAdd {gz(s['n'])} {gstr(s['a'])})")
    if k == "arrnew":
        return sl(f"(RArrayNew {glist([gstr(e) for e in s['es']])})")
    if k == "tupnew":
        return sl(f"(RTupleNew {gstr(s['a'])} {gstr(s['b'])})")
    if k == "ntnew":
        return sl(f"(RNTupleNew {glist([gstr(e) for e in s['es']])})")
    if k == "objnew":
        return sl(f"(RObjectNew {glist([f'({gstr(a)}, {gstr(b)})' for a, b in s['fs']])})")
    if k == "idx":
        return sl(f"(RIndex {gstr(s['a'])} {gz(s['i'])})")
    if k == "fld":
        return sl(f"(RField {gstr(s['a'])} {gstr(s['f'])})")
    if k == "map":
        return sl(f"(RMap {gstr(s['a'])} {gstr(s['f'])})")
    if k == "reduce":
        return sl(f"(RReduce {gstr(s['a'])} {gstr(s['f'])} {gstr(s['init'])})")
    if k == "zip":
        return sl(f"(RZip {gstr(s['a'])} {gstr(s['b'])})")
    if k == "unzip":
        return sl(f"(RUnzip {gstr(s['a'])})")
    if k == "inner":
        return sl(f"(RInner {gstr(s['a'])} {gstr(s['b'])})")
    if k == "call":
        kw = glist([f"({gstr(a)}, {gstr(b)})" for a, b in s.get("kwargs", [])])
        return sl(f"(RCall {gstr(s['f'])} {glist([gstr(a) for a in s['args']])} {kw})")
    if k == "def":
        ps = glist([f"({gstr(n)}, {g_ity(t)})" for n, t in s["params"]])
        return f"(SDef {gstr(s['f'])} {ps} {g_ity(s['ret'])} {glist([g_stmt(b) for b in s['body']])} {gstr(s['res'])})"
    raise ValueError(k)


def to_gallina(prog):
    outs = glist([f"{{| out_name := {gstr(n)}; out_party := {gstr(p)}; out_var := {gstr(v)} |}}" for n, p, v in prog["outs"]])
    return f"{{| p_stmts := {glist([g_stmt(s) for s in prog['stmts']])}; p_outs := {outs} |}}"


def count_stmts(stmts):
    n = 0
    for s in stmts:
        n += 1
        if s["k"] == "def":
            n += count_stmts(s["body"])
    return n


def kinds(stmts, acc=None):
    acc = acc if acc is not None else {}
    for s in stmts:
        key = s["k"] + (":" + s["op"] if s["k"] == "bin" else "")
        acc[key] = acc.get(key, 0) + 1
        if s["k"] == "def":
            kinds(s["body"], acc)
    return acc
