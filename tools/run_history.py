"""One process, a sequence of programs: each traced (and compiled unless it aborts), then a probe
program traced and compiled; prints the probe's MIR (or error) as one JSON line.
argv[1]: JSON file {"steps": [path, ...], "probe": path, "timers": bool}"""
import json
import os
import sys

spec = json.load(open(sys.argv[1]))
if "plan" in spec:
    # a free interleaving of tracing and compiling: [["trace", path, slot] | ["compile", slot] | ["script", path, slot]]...;
    # prints the MIR (or error) obtained for spec["report"]
    for _st in spec["plan"]:
        if _st[0] == "trace":
            _d = os.path.dirname(os.path.abspath(_st[1]))
            if _d not in sys.path:
                sys.path.insert(0, _d)
    from nada_dsl.compiler_frontend import nada_dsl_to_nada_mir, nada_compile
    from nada_dsl.compile import compile_script, compile_string
    outs, mirs, log = {}, {}, []
    held = []
    for st in spec["plan"]:
        try:
            if st[0] == "write":
                with open(st[1], "w", encoding="utf-8") as _f:      # the user edits a file between two compilations
                    _f.write(st[2])
                if len(st) > 3:       # ... at a given time of day: nanoseconds after a fixed whole second
                    os.utime(st[1], ns=(1_700_000_000 * 10**9 + st[3], 1_700_000_000 * 10**9 + st[3]))
                log.append("written")
                continue
            if st[0] == "trace":
                src = open(st[1], encoding="utf-8").read()
                ns = {"__name__": "prog"}
                exec(compile(src, st[1], "exec"), ns)
                outs[st[2]] = ns["nada_main"]()
            elif st[0] == "string":
                import base64 as _b64
                mirs[st[2]] = {"ok": json.loads(compile_string(_b64.b64encode(st[1].encode("utf-8")).decode()).mir)}
            elif st[0] == "compile_dict":
                # the dict API: the caller keeps the returned MIR while the process goes on compiling other programs
                _d = nada_dsl_to_nada_mir(outs[st[1]])
                _snap = json.dumps(_d, sort_keys=True)
                held.append((st[1], _d, _snap))
                mirs[st[1]] = {"ok": json.loads(_snap)}
            elif st[0] == "compile":
                mirs[st[1]] = {"ok": json.loads(nada_compile(outs[st[1]]))}      # the public entry point (what compile_script calls)
            else:
                mirs[st[2]] = {"ok": json.loads(compile_script(st[1]).mir)}
            log.append("ok")
        except Exception as e:    # noqa
            log.append(type(e).__name__)
            if st[0] not in ("trace", "write"):
                mirs[st[-1]] = {"exc": type(e).__name__, "msg": str(e)[:300], "phase": st[0]}
    for _slot, _d, _snap in held:
        _now = json.dumps(_d, sort_keys=True)
        if _now != _snap:
            _a, _b = json.loads(_snap), json.loads(_now)
            mirs[_slot] = {"exc": "ReturnedMirChangedLater", "phase": "held",
                           "msg": "fields of the MIR returned earlier that read differently now: " + ", ".join(k for k in _a if _a[k] != _b.get(k))}
    r = mirs.get(spec["report"], {"exc": "NotCompiled", "msg": "", "phase": "plan"})
    r["log"] = log
    print(json.dumps(r))
    sys.exit(0)
for _p in spec["steps"] + [spec["probe"]]:
    _d = os.path.dirname(os.path.abspath(_p))      # helper modules next to a program can be imported by it
    if _d not in sys.path:
        sys.path.insert(0, _d)
try:
    from nada_dsl.compiler_frontend import nada_dsl_to_nada_mir, nada_compile
    if spec.get("timers"):
        from nada_dsl.timer import timer
        timer.enable()
    log = []
    for path in spec["steps"]:
        try:
            src = open(path, encoding="utf-8").read()
            ns = {"__name__": "prog"}
            exec(compile(src, path, "exec"), ns)
            outs = ns["nada_main"]()
            nada_compile(outs) if len(log) % 2 else nada_dsl_to_nada_mir(outs)      # both entry points take turns
            log.append("ok")
        except Exception as e:    # noqa  -- an earlier program failing is part of the history
            log.append(type(e).__name__)
    src = open(spec["probe"], encoding="utf-8").read()
    ns = {"__name__": "prog"}
    exec(compile(src, spec["probe"], "exec"), ns)
    outs = ns["nada_main"]()
    mir = json.loads(nada_compile(outs)) if spec.get("probe_twice") else nada_dsl_to_nada_mir(outs)
    if spec.get("probe_twice"):
        # the same traced outputs compiled a second time in this process
        mir = nada_dsl_to_nada_mir(outs)
    print(json.dumps({"ok": mir, "log": log}))
except Exception as e:     # noqa
    print(json.dumps({"exc": type(e).__name__, "msg": str(e)[:300], "phase": "probe"}))
