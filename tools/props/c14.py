"""C14 — the strict checker is sound w.r.t. abstract execution."""
import collections
import concurrent.futures
import json
import os

import vlib
import strict_gen


def run_impl(texts, chunk=40):
    chunks = [texts[i:i + chunk] for i in range(0, len(texts), chunk)]

    def one(ch):
        rc, out, err, dt = vlib.run([vlib.PY, os.path.join(vlib.VERIF, "tools", "impl_strict.py")], 900, cwd="/", env=vlib.impl_env(),
                                    input=json.dumps(ch))
        if rc != 0 or "[" not in out:
            raise RuntimeError("impl_strict.py failed: " + vlib.clean_noise(err)[-800:])
        return json.loads(out[out.index("["):])
    res = []
    with concurrent.futures.ThreadPoolExecutor(max_workers=vlib.NCPU) as ex:
        for r in ex.map(one, chunks):
            res += r
    return res


CLS = ["Integer", "PublicInteger", "SecretInteger", "Boolean", "PublicBoolean", "SecretBoolean"]
STY = {"Integer": "(MConst, BInt)", "PublicInteger": "(MPublic, BInt)", "SecretInteger": "(MSecret, BInt)",
       "Boolean": "(MConst, BBool)", "PublicBoolean": "(MPublic, BBool)", "SecretBoolean": "(MSecret, BBool)"}
VAR = {"Integer": "kI", "PublicInteger": "kP", "SecretInteger": "kS", "Boolean": "kB", "PublicBoolean": "kPB", "SecretBoolean": "kSB"}
PRE = ("from nada_dsl import *\n\ndef nada_main():\n    p = Party(name=\"P\")\n    kI = Integer(3)\n"
       "    kP = PublicInteger(Input(name=\"kP\", party=p))\n    kS = SecretInteger(Input(name=\"kS\", party=p))\n"
       "    kB = kI < kI\n    kPB = kP < kP\n    kSB = kS < kS\n")
POST = "    return [Output(kS, \"o\", p)]\n"
PYOP = {"OAdd": "+", "OSub": "-", "OMul": "*", "OLt": "<", "OLe": "<=", "OGt": ">", "OGe": ">=", "OEq": "==", "ONe": "!="}


def table_cells():
    cells = []
    for o in PYOP:
        for l in CLS:
            for r in CLS:
                cells.append((("bin", o, l, r), PRE + f"    x = {VAR[l]} {PYOP[o]} {VAR[r]}\n" + POST))
    for c in CLS:
        for a in CLS:
            for b in CLS:
                cells.append((("if", c, a, b), PRE + f"    x = {VAR[c]}.if_else({VAR[a]}, {VAR[b]})\n" + POST))
    return cells


def static_of_cell(rec):
    """static type the real checker gave the right-hand side on line 11 (None: a type error)"""
    for k, s in rec["static"].items():
        if k.startswith(("BinOp@11:8", "Compare@11:8", "Call@11:8")):
            return s
    return None


def tie_tables(ctx, ok_x):
    cells = table_cells()
    res = run_impl([t for _, t in cells], chunk=60)
    impl = [static_of_cell(r) for r in res]
    # the same cells are also C14 instances on the implementation: static type vs class at run time
    for (cell, text_), r in zip(cells, res):
        for k, s in r["static"].items():
            if k in r["dynamic"] and not agrees(s, r["dynamic"][k]):
                vlib.report_failure(ctx, "C14/type:cell:" + "/".join(cell), f"static type {s} at {k}, run time {r['dynamic'][k]}",
                                    dict(case=dict(kind="strict-program", family="table-cell", cell=list(cell), source_text=text_)))
        if r["type_errors"] == 0 and r["restrictions"] == 0 and r["dynamic_outcome"] != "ok":
            vlib.report_failure(ctx, "C14/raise:cell:" + "/".join(cell), f"accepted statically, abstract execution: {r['dynamic_outcome']}",
                                dict(case=dict(kind="strict-program", family="table-cell", cell=list(cell), source_text=text_)))

    if not ok_x:
        return
    head = ("From Coq Require Import ZArith List String Bool.\nFrom NadaV.PyMini Require Import PyMini.\n"
            "From NadaV.Gen Require GenAbstract GenAudit.\nFrom NadaV.Model Require Import Rules StaticRules.\n"
            "Import ListNotations.\nOpen Scope string_scope.\n"
            "Definition GS : genv := static_genv GenAbstract.classes GenAudit.static_funs.\n"
            "Definition show (s : sres) : string := match s with SType t => class_of t | SError _ => \"<error>\" | SOther w => \"<other>\" end.\n"
            "Fixpoint bad (l : list (sres * string)) (i : Z) : list Z := match l with [] => [] | (s, w) :: r => "
            "if String.eqb (show s) w then bad r (i + 1)%Z else i :: bad r (i + 1)%Z end.\n")
    items = []
    for (cell, _), st in zip(cells, impl):
        w = vlib.gstr(st if st is not None else "<error>")
        if cell[0] == "bin":
            f = "_types_binop_mult_add_sub" if cell[1] in ("OAdd", "OSub", "OMul") else "_types_compare"
            items.append(f"(static_bin GS {vlib.gstr(f)} {STY[cell[2]]} {STY[cell[3]]}, {w})")
        else:
            items.append(f"(static_ifelse GS GenAudit.ifelse_static_exprs {STY[cell[1]]} {STY[cell[2]]} {STY[cell[3]]}, {w})")
    text = head + "Eval vm_compute in (bad " + vlib.glist(items) + " 0%Z).\n"
    rc, o, e2, dt = vlib.eval_cases(ctx, "c14_tie", text)
    if rc != 0:
        ctx.broken.append(dict(kind="correspondence", what="static-rule model evaluation failed", detail=(o + e2)[-1000:]))
        return
    mism = vlib.parse_zlist(vlib.parse_evals(o)[0])
    ctx.note(f"tie: static rules evaluated by PyMini vs the real strict checker on {len(cells)} one-statement programs "
             f"(9 operators x 36 pairs, if_else x 216 triples): {len(mism)} disagree")
    ctx.cov["model_impl_disagreements"] = len(mism)
    ctx.cov["tie_cells"] = len(cells)
    if mism:
        ctx.broken.append(dict(kind="correspondence", what="static-rule model and the real checker disagree",
                               detail=json.dumps([[list(cells[i][0]), impl[i]] for i in mism[:5]])))


def agrees(static, dyn):
    return all(d == static or (d == "list" and static.startswith("list")) for d in dyn)


# fixed programs recorded as findings before the "no-error-reported" suffix existed: their keys stay as they are
OLD_FIXED_KEYS = {"unary-plus", "integer-literal", "sum-of-empty", "if-else-secret-condition", "return-annotation-unchecked",
                  "nested-list-annotation", "element-assignment-of-another-type", "loop-carried-type", "empty-range-body",
                  "list-called-as-function", "sum-of-public-list", "sum-of-literal-list", "typed-constructor-of-int",
                  "comprehension-variable-used-afterwards", "comprehension-variable-shadows-a-name"}


def run(ctx):
    ok_x = vlib.step_extract(ctx)
    ok_p = vlib.step_prove(ctx) if ok_x else False
    n = 150 if ctx.tier == "quick" else 3000
    progs = strict_gen.FIXED + strict_gen.programs(ctx.seed, n)
    rp = vlib.replay_case(ctx)
    if rp is not None and "source_text" in rp:
        progs = [(rp.get("family", "replay"), rp["source_text"])]
        ctx.note("replay: the program of " + ctx.replay)
    res = run_impl([t for _, t in progs])
    hist = collections.Counter()
    nnodes = 0
    for (kind, text), r in zip(progs, res):
        if "static_failed" in r:
            raise RuntimeError(f"generator produced an unparsable program ({kind}): {r['static_failed']}\n{text}")
        mism = [(k, s, r["dynamic"][k]) for k, s in r["static"].items() if k in r["dynamic"] and not agrees(s, r["dynamic"][k])]
        nnodes += sum(1 for k in r["static"] if k in r["dynamic"])
        clean = r["type_errors"] == 0 and r["restrictions"] == 0 and r["skipped_lines"] == 0
        hist[(kind, "clean" if clean else "has-errors", r["dynamic_outcome"].split(":")[0], "mismatch" if mism else "agree")] += 1
        if mism:
            k0, s0, d0 = mism[0]
            node = k0.split("@")[0]
            fixed_kinds = {k for k, _ in strict_gen.FIXED}
            if kind == "sum-of-empty" or (node == "Call" and s0 == "SecretInteger" and d0 == ["int"]):
                key = "C14/type:sum-of-empty"
            elif kind in fixed_kinds:
                # whether the checker reported an error elsewhere in the program is part of what fails
                key = f"C14/type:{kind}" + ("" if not clean or kind in OLD_FIXED_KEYS else ":no-error-reported")
            else:
                key = f"C14/type:{node}:{s0}->{'|'.join(d0)}"
            vlib.report_failure(ctx, key, f"static type {s0} at {k0}, but abstract execution binds {d0} there",
                                dict(case=dict(kind="strict-program", family=kind, source_text=text), mismatches=mism[:5],
                                     how_to_replay="PYTHONPATH=<repo> /venv/bin/python /verif/tools/impl_strict.py  (stdin: JSON list with this text)"))
        if clean and r["dynamic_outcome"] != "ok":
            exc = r["dynamic_outcome"].split(":")[1] if ":" in r["dynamic_outcome"] else r["dynamic_outcome"]
            vlib.report_failure(ctx, f"C14/raise:{kind if kind in {k for k, _ in strict_gen.FIXED} else exc}",
                                f"no type error and no syntax restriction, but abstract execution ends with {r['dynamic_outcome']}",
                                dict(case=dict(kind="strict-program", family=kind, source_text=text), observed=r["dynamic_outcome"]))
    ctx.note(f"validate: {len(progs)} strict-subset programs, {nnodes} typed nodes compared with the classes bound at run time: "
             + ", ".join(f"{v} {k}" for k, v in sorted(hist.items(), key=str)))
    tie_tables(ctx, ok_x)
    ctx.cov.update(evaluations=len(progs), distinct_nontrivial=len({t for _, t in progs}), programs=len(progs),
                   rule="random programs of the strict subset (inputs of both modes, ints/bools/strings, + - * unary minus, comparisons, "
                        "if_else, lists, comprehensions and for-loops over range, sum, str, helper functions, annotated assignments; every "
                        "sixth with one deliberate type error) plus fixed edge programs; every typed expression node is instrumented and the "
                        "program executed under the audit classes",
                   samples=[dict(family=progs[i][0], source_text=progs[i][1][:300]) for i in (4, 5, 10) if i < len(progs)],
                   traces_validated_against_impl=len(progs), typed_nodes_compared=nnodes,
                   histogram={str(k): v for k, v in hist.items()})
    return vlib.finish(ctx)
