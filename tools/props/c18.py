"""C18 — the audited signature agrees with the compiled program's interface."""
import collections
import concurrent.futures
import json
import os
import random

import vlib
import strict_gen
import surface
import progrun
import mirprint
from vlib import gstr, glist

HEAD = ("From Coq Require Import ZArith List String Bool.\nFrom NadaV.PyMini Require Import PyMini.\n"
        "From NadaV.Model Require Import Rules Corr Mir Surface Trace Compile SigModel.\n"
        "From NadaV.Spec Require Import MirSpec SigSpec.\nImport ListNotations.\nOpen Scope string_scope.\n")


SIG_CHUNK = 25


def text_variants(text):
    """semantics-preserving re-writings of a program text that has a top-level nada_main"""
    out = []
    out.append(("body-in-a-helper", text.replace("\ndef nada_main():\n", "\ndef build_everything():\n", 1)
                + "\n\ndef nada_main():\n    return build_everything()\n"))
    out.append(("unused-first-statement", text.replace("\ndef nada_main():\n", "\ndef nada_main():\n    unused_first = 0\n", 1)))
    out.append(("unrelated-function-before", text.replace("\ndef nada_main():\n", "\ndef unrelated(n):\n    return n + 1\n\n\ndef nada_main():\n", 1)))
    lines = text.rstrip("\n").split("\n")
    if lines[-1].startswith("    return [") and lines[-1].endswith("]"):
        out.append(("outputs-as-a-tuple", "\n".join(lines[:-1] + ["    return tuple(" + lines[-1][len("    return "):] + ")"]) + "\n"))
    return out


def run_sig(texts, chunk=SIG_CHUNK):
    chunks = [texts[i:i + chunk] for i in range(0, len(texts), chunk)]

    def one(ch):
        rc, out, err, dt = vlib.run([vlib.PY, os.path.join(vlib.VERIF, "tools", "impl_sig.py")], 900, cwd="/", env=vlib.impl_env(),
                                    input=json.dumps(ch))
        if rc != 0 or "[" not in out:
            raise RuntimeError("impl_sig.py failed: " + vlib.clean_noise(err)[-800:])
        return json.loads(out[out.index("["):])
    res = []
    with concurrent.futures.ThreadPoolExecutor(max_workers=vlib.NCPU) as ex:
        for r in ex.map(one, chunks):
            res += r
    return res


def g_trip(t):
    return f"({gstr(t[0])}, {gstr(t[1])}, {gstr(str(t[2]))})"


def g_sig(s):
    return (f"{{| sg_parties := {glist([gstr(p) for p in s['parties']])}; sg_inputs := {glist([g_trip(t) for t in s['inputs']])}; "
            f"sg_outputs := {glist([g_trip(t) for t in s['outputs']])} |}}")


def g_decl(parties, inputs):
    return f"{{| d_parties := {glist([gstr(p) for p in parties])}; d_inputs := {glist([g_trip(t) for t in inputs])} |}}"


# ------------------------------------------------------------------ straight-line programs for the model tie
MODES = ["Public", "Secret"]
ARITH = ["OAdd", "OSub", "OMul"]
CMP = ["OLt", "OLe", "OGt", "OGe", "OEq", "ONe"]


def anf_program(rng):
    """a surface program (tools/surface.py dict form) inside the common subset, with its declared parties"""
    n = [0]

    def fresh(p="v"):
        n[0] += 1
        return f"{p}{n[0]}"
    parties = [f"P{i}" for i in range(rng.choice([1, 2, 3, 4]))]
    stmts, env = [], []     # env: (var, (mode, base))
    for _ in range(rng.choice([1, 2, 3, 5])):
        x, name = fresh(), fresh("in")
        m = rng.choice(MODES)
        stmts.append({"k": "input", "x": x, "name": name, "party": rng.choice(parties), "doc": "", "t": ("s", m, "Int")})
        env.append((x, (m, "Int")))
    for _ in range(rng.choice([0, 2, 4, 8, 14])):
        ints = [e for e in env if e[1][1] == "Int"]
        bools = [e for e in env if e[1][1] == "Bool"]
        k = rng.random()
        x = fresh()
        if k < 0.1:
            stmts.append({"k": "lit", "x": x, "b": "Int", "v": rng.choice([0, 1, -3, 7, 2 ** 70])})
            env.append((x, ("Const", "Int")))
        elif k < 0.15:
            name = fresh("in"); m = rng.choice(MODES)
            stmts.append({"k": "input", "x": x, "name": name, "party": rng.choice(parties), "doc": "", "t": ("s", m, "Int")})
            env.append((x, (m, "Int")))
        elif k < 0.6:
            a, b = rng.choice(ints), rng.choice(ints)
            stmts.append({"k": "bin", "x": x, "op": rng.choice(ARITH), "a": a[0], "b": b[0]})
            env.append((x, (max3(a[1][0], b[1][0]), "Int")))
        elif k < 0.8:
            a, b = rng.choice(ints), rng.choice(ints)
            stmts.append({"k": "bin", "x": x, "op": rng.choice(CMP), "a": a[0], "b": b[0]})
            env.append((x, (max3(a[1][0], b[1][0]), "Bool")))
        elif k < 0.97 and bools:
            c, a, b = rng.choice(bools), rng.choice(ints), rng.choice(ints)
            stmts.append({"k": "ifelse", "x": x, "c": c[0], "a": a[0], "b": b[0]})
            env.append((x, (max3(c[1][0], a[1][0], b[1][0]), "Int")))
        elif env:
            # deliberately outside what one of the libraries accepts (boolean arithmetic, boolean output below)
            a, b = rng.choice(env), rng.choice(env)
            op = rng.choice(ARITH + CMP)
            if op in ("OEq", "ONe") and a[1][1] == "Bool" and b[1][1] == "Bool":
                # == / != on two abstract booleans is Python object identity (a plain bool, no error): outside what
                # Model/SigModel.v models (it answers None), and outside C15's "modelled operations"
                op = "OLt"
            stmts.append({"k": "bin", "x": x, "op": op, "a": a[0], "b": b[0]})
            if a[1][1] == "Int" and b[1][1] == "Int":
                env.append((x, (max3(a[1][0], b[1][0]), "Bool" if op in CMP else "Int")))
            # otherwise at least one library rejects the statement: the variable is not used again
    cands = [e for e in env if e[1][1] == "Int" and e[1][0] != "Const"] or env
    if rng.random() < 0.08:
        cands = env
    outs = []
    for i in range(rng.choice([1, 1, 2, 3])):
        e = cands[-1 - rng.randrange(min(len(cands), 4))] if rng.random() < 0.7 else rng.choice(cands)
        outs.append((f"out{i}", rng.choice(parties), e[0]))
    return {"stmts": stmts, "outs": outs, "tags": [], "dead": False}, parties


def max3(*ms):
    order = {"Const": 0, "Public": 1, "Secret": 2}
    return max(ms, key=lambda m: order[m])


def anf_python(prog, parties):
    """like surface.to_python, but every declared party is constructed (also unused ones)"""
    L = ["from nada_dsl import *", "", "", "def nada_main():"]
    for p in parties:
        L.append(f"    party_{p} = Party(name={p!r})")
    L += surface.py_stmts(prog["stmts"], 4)
    outs = ", ".join(f"Output({v}, {n!r}, party_{p})" for n, p, v in prog["outs"])
    L.append(f"    return [{outs}]")
    return "\n".join(L) + "\n"


def declared_of(prog):
    cls = {"Public": "PublicInteger", "Secret": "SecretInteger"}
    return [(s["name"], s["party"], cls[s["t"][1]]) for s in prog["stmts"] if s["k"] == "input"]


def eval_shards(ctx, name, items, expr, per_shard=40):
    """items: Gallina terms of one common type T; expr: Gallina function list T -> list Z (failing local indices)"""
    shards = []
    for s in range(0, len(items), per_shard):
        text = HEAD + "From NadaV.Gen Require GenScalar GenAbstract.\n" + \
            "Fixpoint idx {A} (f : A -> Z) (l : list A) (i : Z) : list (Z * Z) := match l with [] => [] | x :: r => " \
            "(if Z.eqb (f x) 0 then [] else [(i, f x)]) ++ idx f r (i + 1)%Z end.\n" + \
            f"Eval vm_compute in (idx {expr} {glist(items[s:s + per_shard])} 0%Z).\n"
        shards.append((s, f"{name}_{s}", text))
    bad, errors = [], []
    with concurrent.futures.ThreadPoolExecutor(max_workers=vlib.NCPU) as ex:
        futs = {ex.submit(vlib.eval_cases, ctx, nm, t, 900): s for s, nm, t in shards}
        for f in concurrent.futures.as_completed(futs):
            s = futs[f]
            rc, o, err, dt = f.result()
            if rc != 0:
                errors.append((s, (o + err)[-1200:]))
                continue
            v = vlib.parse_evals(o)[0]
            import re
            for m in re.finditer(r"\((-?\d+)(?:%Z)?,\s*(-?\d+)(?:%Z)?\)", v):
                bad.append((s + int(m.group(1)), int(m.group(2))))
    return sorted(bad), errors


# fixed program shapes: (family, text, parties constructed, inputs constructed)
SHAPES = [
    ("module-level-declarations",
     'from nada_dsl import *\n\nalice = Party(name="Alice")\nx = SecretInteger(Input(name="x", party=alice))\n\n'
     'def nada_main():\n    bob = Party(name="Bob")\n    y = SecretInteger(Input(name="y", party=bob))\n    return [Output(x + y, "s", alice)]\n',
     ["Alice", "Bob"], [("x", "Alice", "SecretInteger"), ("y", "Bob", "SecretInteger")]),
    ("same-value-to-two-parties",
     'from nada_dsl import *\n\ndef nada_main():\n    alice = Party(name="Alice")\n    bob = Party(name="Bob")\n    carol = Party(name="Carol")\n'
     '    a = SecretInteger(Input(name="a", party=alice))\n    b = SecretInteger(Input(name="b", party=bob))\n    t = a + b\n'
     '    return [Output(t, "for_alice", alice), Output(t, "for_carol", carol)]\n',
     ["Alice", "Bob", "Carol"], [("a", "Alice", "SecretInteger"), ("b", "Bob", "SecretInteger")]),
    ("input-of-earlier-output-to-new-party",
     'from nada_dsl import *\n\ndef nada_main():\n    p = Party(name="P")\n    q = Party(name="Q")\n    r = Party(name="R")\n'
     '    a = PublicInteger(Input(name="a", party=p))\n    b = SecretInteger(Input(name="b", party=p))\n    u = SecretInteger(Input(name="u", party=q))\n'
     '    return [Output(a * b, "prod", p), Output(a, "a_again", r)]\n',
     ["P", "Q", "R"], [("a", "P", "PublicInteger"), ("b", "P", "SecretInteger"), ("u", "Q", "SecretInteger")]),
    ("party-in-helper-called-twice",
     'from nada_dsl import *\n\ndef owner():\n    return Party(name="Owner")\n\ndef nada_main():\n'
     '    a = SecretInteger(Input(name="a", party=owner()))\n    b = SecretInteger(Input(name="b", party=owner()))\n'
     '    return [Output(a + b, "s", owner())]\n',
     ["Owner", "Owner", "Owner"], [("a", "Owner", "SecretInteger"), ("b", "Owner", "SecretInteger")]),
    ("input-only-through-if-else",
     'from nada_dsl import *\n\ndef nada_main():\n    p = Party(name="P")\n    q = Party(name="Q")\n'
     '    a = SecretInteger(Input(name="a", party=p))\n    b = PublicInteger(Input(name="b", party=q))\n    c = PublicInteger(Input(name="c", party=q))\n'
     '    return [Output((b < c).if_else(a, b), "o", p)]\n',
     ["P", "Q"], [("a", "P", "SecretInteger"), ("b", "Q", "PublicInteger"), ("c", "Q", "PublicInteger")]),
    # third / fourth seeding rounds
    ("one-input-object-wrapped-twice",
     'from nada_dsl import *\n\ndef nada_main():\n    alice = Party(name="Alice")\n    raw = Input(name="a", party=alice)\n'
     '    hidden = SecretInteger(raw)\n    a = PublicInteger(raw)\n    return [Output(a + a, "twice", alice)]\n',
     ["Alice"], [("a", "Alice", "PublicInteger")]),
    ("one-input-object-wrapped-twice-secret-last",
     'from nada_dsl import *\n\ndef nada_main():\n    alice = Party(name="Alice")\n    raw = Input(name="a", party=alice)\n'
     '    shown = PublicInteger(raw)\n    a = SecretInteger(raw)\n    return [Output(a + a, "twice", alice)]\n',
     ["Alice"], [("a", "Alice", "SecretInteger")]),
    ("input-constructed-but-never-wrapped",
     'from nada_dsl import *\n\ndef nada_main():\n    alice = Party(name="Alice")\n    a = SecretInteger(Input(name="a", party=alice))\n'
     '    b = SecretInteger(Input(name="b", party=alice))\n    unused = SecretInteger(Input(name="unused", party=alice))\n'
     '    spare = Input(name="spare", party=alice)\n    return [Output(a + b, "s", alice)]\n',
     ["Alice"], [("a", "Alice", "SecretInteger"), ("b", "Alice", "SecretInteger"), ("unused", "Alice", "SecretInteger"), ("spare", "Alice", None)]),
    # one output name delivered to several parties (ninth seeding round)
    ("one-output-name-to-several-parties",
     'from nada_dsl import *\n\ndef nada_main():\n    seller = Party(name="Seller")\n    bidders = [Party(name="Bidder" + str(i)) for i in range(3)]\n'
     '    bids = [SecretInteger(Input(name="bid" + str(i), party=bidders[i])) for i in range(3)]\n    price = bids[0] + bids[1] * bids[2]\n'
     '    outs = [Output(price, "price", seller)]\n    for i in range(3):\n        outs.append(Output(price, "price", bidders[i]))\n    outs.append(Output(bids[0], "first", seller))\n    return outs\n',
     ["Seller", "Bidder0", "Bidder1", "Bidder2"], [("bid0", "Bidder0", "SecretInteger"), ("bid1", "Bidder1", "SecretInteger"), ("bid2", "Bidder2", "SecretInteger")]),
    # a Python condition on a literal comparison chooses which value is output: both libraries accept it
    ("literal-condition-chooses-the-output",
     'from nada_dsl import *\n\ndef nada_main():\n    p = Party(name="P")\n    q = Party(name="Q")\n'
     '    a = SecretInteger(Input(name="a", party=p))\n    b = PublicInteger(Input(name="b", party=p))\n'
     '    pick = a if Integer(5) < Integer(3) else b\n    other = a if Integer(3) < Integer(5) else b\n'
     '    return [Output(pick, "pick", q), Output(other, "other", q)]\n',
     ["P", "Q"], [("a", "P", "SecretInteger"), ("b", "P", "PublicInteger")]),
    ("declarations-after-the-first-output",
     'from nada_dsl import *\n\ndef nada_main():\n    owner = Party(name="Owner")\n    k = PublicInteger(Input(name="k", party=owner))\n'
     '    return [Output(SecretInteger(Input(name="x" + str(i), party=Party(name="P" + str(i)))) * k, "o" + str(i), owner) for i in range(3)]\n',
     ["Owner", "P0", "P1", "P2"], [("k", "Owner", "PublicInteger"), ("x0", "P0", "SecretInteger"), ("x1", "P1", "SecretInteger"), ("x2", "P2", "SecretInteger")]),
    ("augmented-assignment-keeps-the-operand",
     'from nada_dsl import *\n\ndef nada_main():\n    p = Party(name="P")\n    a = PublicInteger(Input(name="a", party=p))\n'
     '    c = PublicInteger(Input(name="c", party=p))\n    b = SecretInteger(Input(name="b", party=p))\n    acc = a\n'
     '    for t in [c, b]:\n        acc += t\n    return [Output(a * a, "sq", p), Output(acc, "acc", p)]\n',
     ["P"], [("a", "P", "PublicInteger"), ("c", "P", "PublicInteger"), ("b", "P", "SecretInteger")]),
]


CLAUSE = {1: "the outputs differ (name, receiving party, type or order)",
          2: "an input or party of the MIR is missing from the signature or listed with another owner / type",
          3: "what the signature lists beyond the MIR is not exactly what the program constructs and no output uses"}


def run(ctx):
    ok_x = vlib.step_extract(ctx)
    ok_p = vlib.step_prove(ctx) if ok_x else False
    rng = random.Random(ctx.seed)
    # ---- population 1: free-form programs of the common subset (lists, loops, comprehensions, helpers)
    n = 160 if ctx.tier == "quick" else 3000
    free = strict_gen.common_programs(ctx.seed, n)
    # the fixed shapes are interleaved (twice) so that each is audited after other programs in the same process
    for k, sh in enumerate(SHAPES + SHAPES):
        free.insert(min(len(free), 3 + 7 * k), sh)
    # ---- population 2: straight-line programs (also run through the model)
    n2 = 200 if ctx.tier == "quick" else 3000
    anf = [anf_program(rng) for _ in range(n2)]
    texts = [t for _, t, _, _ in free] + [anf_python(p, ps) for p, ps in anf]
    decls = [(dp, di) for _, _, dp, di in free] + [(ps, declared_of(p)) for p, ps in anf]
    fams = [k for k, _, _, _ in free] + ["straight-line"] * len(anf)
    sigs = run_sig(texts)
    mirs = progrun.run_impl([None] * len(texts), texts=texts)
    # a signature handed to the caller must still be that program's signature after later programs were audited
    changed = [i for i in range(len(texts)) if "sig_after_later_calls" in sigs[i]]
    ctx.note(f"validate: {len(changed)} of {sum(1 for x in sigs if 'sig' in x)} returned signatures read differently after the later calls of the same process")
    for i in changed[:4]:
        vlib.report_failure(ctx, "C18/result-changed-by-later-audits",
                            "the (parties, inputs, outputs) returned by signature() changed when later programs were audited in the same process, "
                            "so it no longer describes its own program's MIR",
                            dict(case=dict(kind="program", family=fams[i], source_text=texts[i],
                                           audited_later_in_the_same_process=texts[i + 1:(i // SIG_CHUNK + 1) * SIG_CHUNK][:6]),
                                 observed=dict(when_returned=sigs[i]["sig"], after_later_calls=sigs[i]["sig_after_later_calls"]),
                                 how_to_replay="PYTHONPATH=<repo> /venv/bin/python /verif/tools/impl_sig.py (stdin: JSON list of these texts in order)"))
    # metamorphic: the same program re-written without changing what it does has the same signature
    base = [i for i in range(len(texts)) if "sig" in sigs[i] and "\ndef nada_main():\n" in texts[i]][:(60 if ctx.tier == "quick" else 600)]
    variants = []
    for i in base:
        for vname, vtext in text_variants(texts[i]):
            variants.append((i, vname, vtext))
    vsigs = run_sig([t for _, _, t in variants])
    nvbad = 0
    for (i, vname, vtext), vs in zip(variants, vsigs):
        if vs.get("sig") != sigs[i]["sig"]:
            nvbad += 1
            if nvbad <= 4:
                vlib.report_failure(ctx, "C18/other-spelling:" + vname,
                                    f"the program re-written as `{vname}` has another signature than its plain text (or none)",
                                    dict(case=dict(kind="program", family=fams[i], source_text=vtext, plain_source_text=texts[i]),
                                         observed=vs.get("sig") or vs, expected=sigs[i]["sig"],
                                         how_to_replay="PYTHONPATH=<repo> /venv/bin/python /verif/tools/impl_sig.py (stdin: JSON list with both texts)"))
    ctx.note(f"validate: {len(variants)} re-writings of {len(base)} programs (body in a helper, outputs as a tuple, an unused first statement, "
             f"an unrelated function before nada_main): {nvbad} change the signature")
    ctx.cov["rewritten_programs"] = len(variants)
    hist = collections.Counter((f, "sig-ok" if "sig" in s else "sig-raises", "mir-ok" if "ok" in m else "mir-raises")
                               for f, s, m in zip(fams, sigs, mirs))
    both = [i for i in range(len(texts)) if "sig" in sigs[i] and "ok" in mirs[i]]
    items = [f"({g_decl(*decls[i])}, {g_sig(sigs[i]['sig'])}, {mirprint.g_mir(mirs[i]['ok'])})" for i in both]
    bad, errors = eval_shards(ctx, "c18_spec", items, "(fun c : decl * sigr * mir => let '(d, s, m) := c in which_fails d s m)")
    if errors:
        raise RuntimeError("cases c18_spec failed: " + errors[0][1])
    ctx.note(f"validate: signature_agreesb evaluated in Coq on {len(both)} programs accepted by both libraries "
             f"({len(texts)} generated): {len(bad)} violating; " + ", ".join(f"{v} {k}" for k, v in sorted(hist.items())))
    for j, clause in bad[:8]:
        i = both[j]
        s, m = sigs[i]["sig"], mirs[i]["ok"]
        sub = ""
        if clause == 1:
            sp = {"PublicInteger": "Integer", "PublicBoolean": "Boolean"}
            so = [(o[0], o[1], sp.get(o[2], o[2])) for o in s["outputs"]]
            mo = [(o["name"], o["party"], o["type"]) for o in m["outputs"]]
            sub = "order" if sorted(so) == sorted(mo) else ("unreturned" if set(mo) < set(so) else "content")
        vlib.report_failure(ctx, f"C18/clause{clause}" + (":" + sub if sub else ""), CLAUSE[clause],
                            dict(case=dict(kind="program", family=fams[i], source_text=texts[i], constructs=dict(parties=decls[i][0], inputs=decls[i][1]),
                                           audited_earlier_in_the_same_process=texts[(i // SIG_CHUNK) * SIG_CHUNK:i]),
                                 signature=s, mir_interface=dict(parties=[p["name"] for p in m["parties"]],
                                                                 inputs=[[x["name"], x["party"], x["type"]] for x in m["inputs"]],
                                                                 outputs=[[o["name"], o["party"], o["type"]] for o in m["outputs"]]),
                                 how_to_replay="nada_dsl.audit.signature(source_text) vs nada_dsl_to_nada_mir(nada_main()) of the same text"))
    # ---- tie: the abstract-signature model against signature(), and the compile model against the MIR
    if ok_x:
        off = len(free)
        titems = []
        for k, (p, ps) in enumerate(anf):
            s = sigs[off + k]
            so = f"(Some {g_sig(s['sig'])})" if "sig" in s else "None"
            titems.append(f"({glist([gstr(x) for x in ps])}, {surface.to_gallina(p)}, {so}, {mirprint.g_ioutcome(mirs[off + k])})")
        texpr = ("(fun c : list string * program * option sigr * ioutcome => let '(ps, p, s, io) := c in "
                 "let sm := abs_sig GenAbstract.GA ps p in "
                 "(if match sm, s with Some a, Some b => list_eqb String.eqb (sg_parties a) (sg_parties b) && trips_eqb (sg_inputs a) (sg_inputs b) "
                 "&& trips_eqb (sg_outputs a) (sg_outputs b) | None, None => true | _, _ => false end then 0 else 1) "
                 "+ (if outcome_agrees (run GenScalar.G p) io then 0 else 2))%Z")
        dis, errors = eval_shards(ctx, "c18_tie", titems, texpr)
        if errors:
            ctx.broken.append(dict(kind="correspondence", what="model evaluation failed", detail=errors[0][1]))
        else:
            ctx.note(f"tie: abs_sig (PyMini over the regenerated abstract classes) vs signature(), and the compile model vs the MIR, "
                     f"on {len(anf)} straight-line programs: {len(dis)} disagree")
            ctx.cov["model_impl_disagreements"] = len(dis)
            if dis:
                k, code = dis[0]
                ctx.broken.append(dict(kind="correspondence",
                                       what="model and implementation disagree (" + ("signature" if code & 1 else "") + (" MIR" if code & 2 else "") + ")",
                                       detail=texts[off + k] + "\n" + json.dumps(sigs[off + k])))
    ctx.cov.update(evaluations=len(texts), distinct_nontrivial=len(both), programs=len(texts),
                   rule="free-form programs of the common subset (1-4 parties some unused, 2-5 integer inputs of both modes some unused, "
                        "+ - *, comparisons, if_else, Integer literals, lists, for-loops, comprehensions, sum, helper functions, 1-3 outputs "
                        "built inline / in advance and returned in another order / appended to a list) and straight-line programs; "
                        "non-trivial = accepted by both signature() and the compiler",
                   samples=[dict(family=fams[i], source_text=texts[i][:400]) for i in (0, 1, len(free))],
                   traces_validated_against_impl=len(both), histogram={str(k): v for k, v in hist.items()})
    return vlib.finish(ctx)
