"""C03 — no implicit declassification."""
from props import mirprop as mp


def classify(name, prog, res):
    tags = prog.get("tags") or []
    if "untruthful-annotation" in tags:
        return "C03/declass:untruthful-annotation", "a function annotated public was applied to a secret: public-typed result depending on a secret"
    if "inner-public-secret" in tags:
        return "C03/declass:inner-product-public-receiver", "inner product of a public array with a secret array is typed public"
    return "C03/declass", "a public-typed value depends on a secret (Spec/Taint.v C03b)"


def run(ctx):
    return mp.generic_run(ctx, {"C03b": mp.on_mir("C03b")}, classify, api_probe=True)
