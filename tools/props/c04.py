"""C04 — the operation graph is a faithful image of the expression the program wrote."""
from props import mirprop as mp


def classify(name, prog, res):
    if mp.has_kwargs(prog["stmts"]):
        return "C04/drop:keyword-arguments", "a keyword argument of a nada function call is missing from the emitted call"
    if mp.has_literal_param(prog["stmts"]):
        return "C04/fold:literal-typed-params", "an operation on literal-typed nada_fn parameters was folded on the placeholder value 0"
    return "C04/unfaithful", "the MIR is not a faithful image of the program (Spec/Denote.v faithfulb)"


def run(ctx):
    return mp.generic_run(ctx, {"faithfulb": mp.on_case("faithfulb")}, classify, level='translation_validation', second_compilation=True, plain_left=True, text_variants=True, other_spellings=True)
