"""C12 — collection operations enforce their preconditions and size/element rules."""
import concurrent.futures

import vlib
import surface
import progrun
import collcases
from props import mirprop as mp


def key_of(case, res):
    if case.startswith("(CInner") and "ok" in res:
        return "C12/accepts:inner-product-of-non-integers"
    if case.startswith("(CIndex") and "ok" in res:
        return "C12/accepts:negative-ntuple-index"
    if case.startswith("(CNew") and "ok" in res:
        return "C12/accepts:array-new-of-different-types"
    return "C12/case:" + case[:60]


def run(ctx):
    ok_x = vlib.step_extract(ctx)
    ok_p = vlib.step_prove(ctx) if ok_x else False
    cs = collcases.cases(ctx.seed, ctx.tier)
    progs = [p for p, _ in cs]
    results = progrun.run_impl(progs)
    text = ("From Coq Require Import ZArith List String.\nFrom NadaV.Model Require Import Mir.\n"
            "From NadaV.Spec Require Import MirSpec CollSpec.\nImport ListNotations.\nOpen Scope string_scope.\n"
            "Definition cases : list (ccase * cobs) :=\n  [" +
            ";\n   ".join(f"({c}, {collcases.observe(r)})" for (_, c), r in zip(cs, results)) + "].\n"
            "Eval vm_compute in (coll_violations cases).\n")
    rc, out, err, dt = vlib.eval_cases(ctx, "c12_spec", text)
    if rc != 0:
        raise RuntimeError("cases c12_spec failed: " + (out + err)[-1500:])
    viol = vlib.parse_zlist(vlib.parse_evals(out)[0])
    nacc = sum(1 for r in results if "ok" in r)
    ctx.note(f"validate: collection specification evaluated in Coq on {len(cs)} single-operation cases "
             f"({nacc} accepted, {len(cs) - nacc} rejected by the implementation): {len(viol)} violating ({dt:.1f}s)")
    for i in viol:
        vlib.report_failure(ctx, key_of(cs[i][1], results[i]), f"case {cs[i][1]} observed {collcases.observe(results[i])[:200]}",
                            mp.replay_payload(progs[i], results[i], dict(spec_case=cs[i][1])))
    if ok_x:
        dis = mp.tie_model(ctx, progs, results)
        if dis is not None:
            ctx.note(f"tie: model vs implementation on {len(progs)} cases: {len(dis)} disagree")
            ctx.cov["model_impl_disagreements"] = len(dis)
            if dis:
                ctx.broken.append(dict(kind="correspondence", what="model and implementation disagree",
                                       detail=surface.to_python(progs[dis[0]])))
    mp.standard_cov(ctx, progs, results, len(progs))
    ctx.cov["rule"] = ("grid of single-operation collection cases: element-type pairs x size pairs (0,1,2,3,7,10^6) for zip / "
                       "inner_product, unzip, map, Array.new of equal/different types, every n-tuple index from -n-1 to n+1, "
                       "present/absent object fields; non-trivial = accepted by the implementation")
    ctx.cov["distinct_nontrivial"] = nacc
    return vlib.finish(ctx)
