"""Shared driver for the program-level (MIR) properties: generate surface programs, run the
implementation (fresh process each), and evaluate in Coq (a) model-vs-implementation agreement
and (b) the property's own boolean specification on the implementation's MIR."""
import collections
import json

import vlib
import surface
import progrun

IMPORTS = "From NadaV.Gen Require Import GenScalar.\nFrom NadaV.Spec Require Import MirSpec Denote ProgSpec Taint.\n"
AGREE = "(fun cs => indices_where (fun c : program * ioutcome => negb (outcome_agrees (run G (fst c)) (snd c))) cs 0%Z)"


MODEL_ACCEPTS = "(fun cs => indices_where (fun c : program * ioutcome => match run G (fst c), snd c with Ok _, IOk _ => false | Ok _, _ => true | _, _ => false end) cs 0%Z)"


def on_mir(pred):
    return (f"(fun cs => indices_where (fun c : program * ioutcome => match snd c with IOk m => negb ({pred} m) "
            f"| _ => false end) cs 0%Z)")


def on_case(pred):
    return (f"(fun cs => indices_where (fun c : program * ioutcome => match snd c with IOk m => negb ({pred} (fst c) m) "
            f"| _ => false end) cs 0%Z)")


def captures_enclosing_param(stmts, enclosing_params=frozenset(), depth=0):
    """does a nested def's body use a parameter of an enclosing def?"""
    for s in stmts:
        if s["k"] != "def":
            continue
        mine = {n for n, _ in s["params"]}
        if depth >= 1:
            used = set()
            collect_uses(s["body"], used)
            used.add(s["res"])
            if used & (enclosing_params - mine):
                return True
        if captures_enclosing_param(s["body"], (enclosing_params | mine), depth + 1):
            return True
    return False


def collect_uses(stmts, acc):
    for s in stmts:
        for k in ("a", "b", "c", "f", "init"):
            if k in s and isinstance(s[k], str):
                acc.add(s[k])
        for k in ("es", "args"):
            if k in s:
                acc.update(s[k])
        if "fs" in s:
            acc.update(v for _, v in s["fs"])
        if "kwargs" in s:
            acc.update(v for _, v in s["kwargs"])
        if s["k"] == "def":
            collect_uses(s["body"], acc)
            acc.add(s["res"])


def scan_types(mir):
    """shape classes of the types in a MIR (for keying known findings)"""
    acc = set()

    def scan(t, where):
        if isinstance(t, str):
            if t in ("Array", "NTuple", "Object", "Tuple", "T"):
                acc.add(f"{where}bare:{t}")
        elif isinstance(t, dict):
            for k, v in t.items():
                if k == "Array":
                    if v.get("size") is None:
                        acc.add(f"{where}array-no-size")
                    scan(v["inner_type"], where)
                elif k == "Tuple":
                    scan(v["left_type"], where); scan(v["right_type"], where)
                elif k == "NTuple":
                    for x in v["types"]:
                        scan(x, where)
                elif k == "Object":
                    for x in v["types"].values():
                        scan(x, where)
    for tab in [mir["operations"]] + [f["operations"] for f in mir["functions"]]:
        for op in tab.values():
            for b in op.values():
                scan(b.get("type"), "")
    for f in mir["functions"]:
        for a in f["args"]:
            scan(a["type"], "param:")
    for x in mir["inputs"] + mir["outputs"]:
        scan(x["type"], "")
    return acc


def distribution(progs, results):
    sizes = [surface.count_stmts(p["stmts"]) for p in progs]
    kinds = collections.Counter()
    for p in progs:
        kinds.update(surface.kinds(p["stmts"]))
    outcomes = collections.Counter(("accepted" if "ok" in r else "rejected:" + r["exc"]) for r in results)
    ndefs = sum(kinds.get("def", 0) for _ in [0])
    return dict(n=len(progs), statements_min=min(sizes), statements_max=max(sizes),
                statements_mean=round(sum(sizes) / len(sizes), 1), constructs=dict(kinds),
                outcomes=dict(outcomes),
                accepted_share=round(sum(1 for r in results if "ok" in r) / len(results), 3))


def run_programs(ctx, n_random, targeted, preds, per_shard=40):
    """preds: {name: gallina-expr}.  Returns progs, results, {name: failing indices}, disagreements or None."""
    progs = list(targeted) + progrun.generate(ctx.seed, n_random)
    rp = vlib.replay_case(ctx)
    if rp is not None and rp.get("surface_program"):
        # --replay: only the program of the replay file (evidence is not rewritten)
        progs = [rp["surface_program"]]
        ctx.note("replay: the program of " + ctx.replay)
    results = progrun.run_impl(progs)
    harness_fail = [i for i, r in enumerate(results) if r.get("exc") == "HarnessFailure"]
    if harness_fail:
        raise RuntimeError(f"implementation harness failed on {len(harness_fail)} programs: {results[harness_fail[0]]}")
    exprs = dict(preds)
    out, errors = progrun.eval_over_cases(ctx, ctx.prop.lower(), IMPORTS, progs, results, list(exprs.values()), per_shard)
    if errors:
        raise RuntimeError("Coq evaluation of cases failed: " + errors[0][1])
    byname = {name: out[e] for name, e in exprs.items()}
    return progs, results, byname


def tie_model(ctx, progs, results):
    """model vs implementation; needs a buildable Gen (caller checks)."""
    # "may reject" texts (a hand-written text whose MEANING is the surface term; the library may refuse the text) are
    # never part of the tie in a normal run; a --replay of such a case must not put them there either
    MAY_REJECT = {"text-variant", "plain-left-operand", "plain-number-seed"}
    keep = [i for i, p in enumerate(progs) if not ("text" in p and MAY_REJECT & set(p.get("tags") or []))]
    if len(keep) < len(progs):
        progs, results = [progs[i] for i in keep], [results[i] for i in keep]
        if not progs:
            return []
    out, errors = progrun.eval_over_cases(ctx, ctx.prop.lower() + "_tie", IMPORTS, progs, results, [AGREE])
    if errors:
        ctx.broken.append(dict(kind="correspondence", what="model evaluation failed", detail=errors[0][1]))
        return None
    return out[AGREE]


def replay_payload(prog, result, extra=None):
    d = dict(case=dict(kind="program", python_source=prog.get("text") or surface.to_python(prog), tags=prog.get("tags"), surface_program=prog),
             observed=("accepted" if "ok" in result else result),
             how_to_replay="save python_source as prog.py; cd / && PYTHONPATH=<repo> /venv/bin/python /verif/tools/run_one.py prog.py")
    if "ok" in result:
        d["observed_mir"] = {k: result["ok"][k] for k in ("operations", "functions", "inputs", "literals", "parties", "outputs")}
    if extra:
        d.update(extra)
    return d


def standard_cov(ctx, progs, results, ntargeted):
    dist = distribution(progs, results)
    nontrivial = {surface.to_python(p) for p, r in zip(progs, results) if "ok" in r and surface.count_stmts(p["stmts"]) >= 3}
    ctx.cov.update(
        evaluations=len(progs), programs=len(progs), distinct_nontrivial=len(nontrivial),
        rule=f"{ntargeted} targeted programs + type-directed random surface programs (one PRNG from VERIF_SEED), each traced and "
             "compiled by the real code in a fresh process; distinct = distinct program texts; non-trivial = accepted by the "
             "implementation with at least 3 DSL statements",
        samples=[dict(python_source=surface.to_python(progs[i]),
                      outcome=("accepted" if "ok" in results[i] else results[i]["exc"])) for i in (0, len(progs) // 2, len(progs) - 1)],
        traces_validated_against_impl=len(progs), input_distribution=dist)


def on_prog_outcome(pred):
    """pred : program -> bool ; failing = pred holds but the implementation ACCEPTED the program"""
    return (f"(fun cs => indices_where (fun c : program * ioutcome => match snd c with IOk m => {pred} (fst c) "
            f"| _ => false end) cs 0%Z)")


def has_literal_param(stmts):
    return any(s["k"] == "def" and (any(t[0] == "s" and t[1] == "Const" for _, t in s["params"]) or has_literal_param(s["body"]))
               for s in stmts)


def has_kwargs(stmts):
    return any((s["k"] == "call" and s.get("kwargs")) or (s["k"] == "def" and has_kwargs(s["body"])) for s in stmts)


SHARED_CONSTS = "from nada_dsl import *\n\nSCALE = Integer(1000)\nLIMIT = Integer(7)\n"
SHARED_A = ("from nada_dsl import *\nfrom consts import SCALE, LIMIT\n\n\ndef nada_main():\n    party_P0 = Party(name='P0')\n"
            "    a = SecretInteger(Input(name='a', party=party_P0))\n    r = a * SCALE\n    t = r + LIMIT\n"
            "    return [Output(t, 'o', party_P0)]\n")
SHARED_B = ("from nada_dsl import *\nfrom consts import SCALE, LIMIT\n\n\ndef nada_main():\n    party_P0 = Party(name='P0')\n"
            "    b = SecretInteger(Input(name='b', party=party_P0))\n    five = Integer(5)\n    q = b / SCALE\n    r = q - five\n"
            "    c = r < LIMIT\n    return [Output(r, 'o1', party_P0), Output(c, 'o2', party_P0)]\n")


def shared_module_program():
    """surface form of SHARED_B (module-level literals become literal statements)"""
    import targeted
    return targeted.prog([{"k": "lit", "x": "SCALE", "b": "Int", "v": 1000}, {"k": "lit", "x": "LIMIT", "b": "Int", "v": 7},
                          targeted.inp("b", "b", targeted.SI), {"k": "lit", "x": "five", "b": "Int", "v": 5},
                          {"k": "bin", "x": "q", "op": "ODiv", "a": "b", "b": "SCALE"}, {"k": "bin", "x": "r", "op": "OSub", "a": "q", "b": "five"},
                          {"k": "bin", "x": "c", "op": "OLt", "a": "r", "b": "LIMIT"}],
                         [("o1", "P0", "r"), ("o2", "P0", "c")], ["shared-module-literals"])


def second_compilation_case(ctx, preds, classify):
    """two programs that import the same helper module (module-level literals), compiled one after the other in ONE
    process: the predicates are evaluated on the MIR of the second one"""
    import json
    import os
    import shutil
    import tempfile
    d = tempfile.mkdtemp(prefix="nadaverif_shared_")
    try:
        for name, text in (("consts.py", SHARED_CONSTS), ("prog_a.py", SHARED_A), ("prog_b.py", SHARED_B)):
            with open(os.path.join(d, name), "w") as f:
                f.write(text)
        sp = os.path.join(d, "spec.json")
        json.dump({"steps": [os.path.join(d, "prog_a.py")], "probe": os.path.join(d, "prog_b.py"), "timers": False}, open(sp, "w"))
        rc, out, err, dt = vlib.run([vlib.PY, os.path.join(vlib.VERIF, "tools", "run_history.py"), sp], 180, cwd=d, env=vlib.impl_env())
    finally:
        shutil.rmtree(d, ignore_errors=True)
    ls = [l for l in out.splitlines() if l.startswith("{")]
    if not ls:
        raise RuntimeError("shared-module case: harness failed: " + vlib.clean_noise(err)[-400:])
    res = json.loads(ls[-1])
    prog = shared_module_program()
    exprs = list(preds.values())
    outp, errors = progrun.eval_over_cases(ctx, "shared_module", IMPORTS, [prog], [res], exprs)
    if errors:
        raise RuntimeError("cases shared_module failed: " + errors[0][1])
    nbad = 0
    for name, e in preds.items():
        if outp[e] or "ok" not in res:
            nbad += 1
            key, what = classify(name, prog, res)
            vlib.report_failure(ctx, key + ":second-compilation-shared-module",
                                what + " — for a program compiled after another one that imports the same helper module (module-level literals)",
                                dict(case=dict(kind="two-programs-one-process", consts_py=SHARED_CONSTS, first_program=SHARED_A, second_program=SHARED_B),
                                     observed=(res if "ok" not in res else {k: res["ok"][k] for k in ("literals", "operations", "outputs")}),
                                     how_to_replay="write the three files to one directory; tools/run_history.py with steps=[prog_a.py], probe=prog_b.py"))
    ctx.note(f"validate: second compilation in one process with a shared helper module (module-level literals): {nbad} predicate(s) violated")
    ctx.cov["second_compilation_case"] = True


PLAIN_LEFT_OPS = {"OSub": "-", "ODiv": "/", "OMod": "%", "OPow": "**", "OLShift": "<<", "ORShift": ">>"}


def may_reject_family(ctx, preds, classify, progs, label, what, name):
    """programs given as a Python text next to the surface term saying what the text means; the library may reject
    the text, but when it accepts, every predicate must hold of the MIR against the surface term"""
    texts = [p["text"] for p in progs]
    results = progrun.run_impl([None] * len(texts), texts=texts)
    acc = [i for i, r in enumerate(results) if "ok" in r]
    nbad = 0
    if acc:
        exprs = list(preds.values())
        outp, errors = progrun.eval_over_cases(ctx, name, IMPORTS, [progs[i] for i in acc], [results[i] for i in acc], exprs)
        if errors:
            raise RuntimeError(f"cases {name} failed: " + errors[0][1])
        for pname, e in preds.items():
            for j in outp[e]:
                i = acc[j]
                nbad += 1
                key, wh = classify(pname, progs[i], results[i])
                vlib.report_failure(ctx, key + ":" + label, wh + " — " + what, replay_payload(progs[i], results[i]))
    ctx.note(f"validate: {len(texts)} programs ({what}): {len(acc)} accepted by the implementation, {nbad} predicate failures among them")
    ctx.cov[name + "_programs"] = len(texts)


def strip_loc(m):
    """MIR without source-location details"""
    def walk(x):
        if isinstance(x, dict):
            return {k: walk(v) for k, v in x.items() if k != "source_ref_index"}
        if isinstance(x, list):
            return [walk(v) for v in x]
        return x
    return walk({k: v for k, v in m.items() if k not in ("source_files", "source_refs")})


def other_spellings_case(ctx, n_random):
    """metamorphic: the same program written in other (semantically identical) ways — operators through their special
    methods or the operator module, augmented assignment, a Party object at every use, constructors with keywords,
    outputs as a generator / tuple, the whole body in a helper, aliases of every name, parentheses, lambdas — compiles to
    the same MIR, source locations apart, and is rejected if and only if the plain spelling is.  The plain MIR is the
    one the specifications of this check are evaluated on, so equality with it transfers their verdict."""
    import targeted
    progs = [p for p in targeted.all_families() if "text" not in p] + progrun.generate(ctx.seed + 77, n_random, sizes=(3, 12))
    styles = surface.STYLES
    rp = vlib.replay_case(ctx)
    if rp is not None and rp.get("surface_program"):
        if not rp.get("style"):
            return                       # a replay of another kind of case
        progs, styles = [rp["surface_program"]], (rp["style"],)
    texts, owner = [], []
    for i, p in enumerate(progs):
        plain_text = surface.to_python(p)
        texts.append(plain_text); owner.append((i, None))
        for st in styles:
            t = surface.to_python(p, st)
            if t != plain_text:          # the style changes nothing in this program
                texts.append(t); owner.append((i, st))
    results = progrun.run_impl([None] * len(texts), texts=texts)
    plain = {i: r for (i, st), r in zip(owner, results) if st is None}
    nbad, ncmp = 0, 0
    for (i, st), r, t in zip(owner, results, texts):
        if st is None:
            continue
        ncmp += 1
        r0 = plain[i]
        same = ("ok" in r) == ("ok" in r0) and ("ok" not in r or strip_loc(r["ok"]) == strip_loc(r0["ok"]))
        if not same:
            nbad += 1
            if nbad <= 6:
                vlib.report_failure(ctx, f"C04/other-spelling:{st}",
                                    f"the program written in the `{st}` style does not compile to the MIR of its plain spelling",
                                    dict(case=dict(kind="program", style=st, python_source=t, plain_python_source=surface.to_python(progs[i]), surface_program=progs[i]),
                                         observed=(r if "ok" not in r else {k: r["ok"][k] for k in ("operations", "outputs", "inputs", "parties", "literals")}),
                                         expected=(r0 if "ok" not in r0 else {k: r0["ok"][k] for k in ("operations", "outputs", "inputs", "parties", "literals")}),
                                         how_to_replay="PYTHONPATH=<repo> /venv/bin/python /verif/tools/run_one.py <file with python_source>; compare with plain_python_source, ignoring source_ref_index / source_files / source_refs"))
    ctx.note(f"validate: {ncmp} other spellings ({len(surface.STYLES)} styles) of {len(progs)} programs against the MIR of the plain spelling: {nbad} differ")
    ctx.cov["other_spellings"] = ncmp


def api_probe_case(ctx, preds_on_mir, key_prefix, what, key_of_call=None):
    """every public method of the DSL's value classes, called with arguments from a small pool: each accepted call is
    compiled and the given MIR-level specifications are evaluated on its MIR (a method added to the library is probed
    the day it appears)"""
    import os
    import targeted
    rc, out, err, dt = vlib.run([vlib.PY, os.path.join(vlib.VERIF, "tools", "impl_api_probe.py")], 900, cwd="/", env=vlib.impl_env())
    if rc != 0 or "[" not in out:
        raise RuntimeError("impl_api_probe.py failed: " + vlib.clean_noise(err)[-800:])
    calls = json.loads(out[out.index("["):])
    dummy = targeted.prog([targeted.inp("a", "a", targeted.SI)], [("o", "P0", "a")], ["api-probe"])
    exprs = list(preds_on_mir.values())
    outp, errors = progrun.eval_over_cases(ctx, "api_probe", IMPORTS, [dummy] * len(calls), calls, exprs)
    if errors:
        raise RuntimeError("cases api_probe failed: " + errors[0][1])
    nbad = 0
    for pname, e in preds_on_mir.items():
        for j in outp[e]:
            nbad += 1
            key = (key_of_call(calls[j]["call"]) if key_of_call else None) or f"{key_prefix}/api:{calls[j]['call'].split('(')[0]}"
            vlib.report_failure(ctx, key, f"{what}: the call {calls[j]['call']} is accepted and its MIR fails {pname}",
                                dict(case=dict(kind="api-call", call=calls[j]["call"]), observed={k: calls[j]["ok"][k] for k in ("operations", "outputs", "inputs", "functions")},
                                     how_to_replay="PYTHONPATH=<repo> /venv/bin/python /verif/tools/impl_api_probe.py  (prints every accepted call with its MIR)"))
    ctx.note(f"validate: {len(calls)} accepted calls of public methods of the value classes (argument pool of 13 kinds, up to 2 arguments): {nbad} specification failures")
    ctx.cov["api_calls_probed"] = len(calls)


def plain_left_programs():
    import targeted
    progs = []
    for op, sym in PLAIN_LEFT_OPS.items():
        for mode in ("Secret", "Public"):
            for base in ("Int", "UInt"):
                t = targeted.S(mode, base)
                pr = targeted.prog([targeted.inp("x", "x", t), {"k": "lit", "x": "l", "b": base, "v": 100},
                                    {"k": "bin", "x": "r", "op": op, "a": "l", "b": "x"}], [("o", "P0", "r")], ["plain-left-operand", op])
                text = surface.to_python(pr)
                lit_line = [l for l in text.split("\n") if l.strip().startswith("l = ")][0]
                text = text.replace(lit_line + "\n", "").replace(f"r = l {sym} x", f"r = 100 {sym} x")
                assert f"r = 100 {sym} x" in text
                pr["text"] = text
                progs.append(pr)
    return progs


def plain_left_operand_case(ctx, preds, classify):
    """a plain Python number written on the LEFT of a non-commutative operator (100 - x): the library may reject it;
    when it accepts, the MIR must be the image of Integer(100) - x, operands in written order"""
    may_reject_family(ctx, preds, classify, plain_left_programs(), "plain-number-on-the-left",
                      "a plain Python number on the left of - / % ** << >>", "plain_left")


def text_variant_programs():
    """the same program written in unusual but legal ways: the outputs handed over as a generator / iterator / tuple /
    by a generator function; literals built from Python booleans and conditions (Integer(True) is Integer(1))"""
    import targeted
    SI, PI = targeted.SI, targeted.S("Public", "Int")
    progs = []
    base = [targeted.inp("a", "a", SI), targeted.inp("b", "b", PI, "P1"), {"k": "bin", "x": "s", "op": "OSub", "a": "a", "b": "b"},
            {"k": "bin", "x": "m", "op": "OMul", "a": "s", "b": "a"}]
    outs = [("first", "P0", "s"), ("second", "P1", "m"), ("third", "P0", "a")]
    for tag, wrap in (("outputs-generator-expression", "(o for o in [{L}])"), ("outputs-iterator", "iter([{L}])"),
                      ("outputs-tuple", "({L},)"), ("outputs-map-object", "map(lambda o: o, [{L}])"),
                      ("outputs-reversed-twice", "reversed(list(reversed([{L}])))")):
        pr = targeted.prog(list(base), list(outs), ["text-variant", tag])
        text = surface.to_python(pr)
        ret = [l for l in text.split("\n") if l.strip().startswith("return [")][0]
        inner = ret.strip()[len("return ["):-1]
        pr["text"] = text.replace(ret, "    return " + wrap.replace("{L}", inner))
        progs.append(pr)
    # a fresh Party object at every use: parties are what their names say, however many objects carry a name
    import re as _re
    pr = targeted.prog(list(base), list(outs), ["text-variant", "party-object-at-every-use"])
    text = surface.to_python(pr)
    lines_ = [l for l in text.split("\n") if not _re.match(r"\s*party_\w+ = Party\(", l)]
    pr["text"] = _re.sub(r"party_(\w+)", lambda mm: "Party(name='" + mm.group(1) + "')", "\n".join(lines_))
    progs.append(pr)
    # a generator function as nada_main
    pr = targeted.prog(list(base), list(outs), ["text-variant", "outputs-yielded"])
    text = surface.to_python(pr)
    ret = [l for l in text.split("\n") if l.strip().startswith("return [")][0]
    inner = ret.strip()[len("return ["):-1]
    items = []
    depth, cur = 0, ""
    for ch in inner:
        if ch == "," and depth == 0:
            items.append(cur.strip()); cur = ""
            continue
        depth += ch in "([{"
        depth -= ch in ")]}"
        cur += ch
    items.append(cur.strip())
    pr["text"] = text.replace(ret, "\n".join("    yield " + it for it in items))
    progs.append(pr)
    # literals written through Python booleans / conditions
    for tag, cls, expr, b in (("literal-from-True", "Integer", "True", "Int"), ("literal-from-comparison", "Integer", "3 > 2", "Int"),
                              ("literal-from-equality", "UnsignedInteger", "len([1, 2]) == 2", "UInt"), ("literal-from-int-subclass", "Integer", "bool(5)", "Int")):
        pr = targeted.prog([targeted.inp("a", "a", SI if b == "Int" else targeted.S("Secret", "UInt")), {"k": "lit", "x": "one", "b": b, "v": 1},
                            {"k": "lit", "x": "uno", "b": b, "v": 1},
                            {"k": "bin", "x": "r", "op": "OAdd", "a": "a", "b": "one"}, {"k": "bin", "x": "q", "op": "OMul", "a": "r", "b": "uno"}],
                           [("o", "P0", "q"), ("lit", "P0", "one")], ["text-variant", tag])
        text = surface.to_python(pr)
        line = [l for l in text.split("\n") if l.strip().startswith("one = ")][0]
        pr["text"] = text.replace(line, f"    one = {cls}({expr})")
        progs.append(pr)
    # keyword-only parameters (eleventh seeding round): they are not parameters of the Nada function.  Given at a call,
    # the keyword must not be dropped silently (rejecting is fine); left to their default in a map, the default is used
    head = ("from nada_dsl import *\n\n\ndef nada_main():\n    party_P0 = Party(name='P0')\n"
            "    x = SecretInteger(Input(name='x', party=party_P0))\n    y = SecretInteger(Input(name='y', party=party_P0))\n"
            "    z = SecretInteger(Input(name='z', party=party_P0))\n")
    kwdef = ("    def scale(v: SecretInteger, *, k: SecretInteger = y) -> SecretInteger:\n        r = v * k\n        return r\n"
             "    f = nada_fn(scale)\n")

    def scale_def(captured):
        return {"k": "def", "f": "scale", "params": [("v", SI)], "ret": SI, "body": [{"k": "bin", "x": "r", "op": "OMul", "a": "v", "b": captured}],
                "res": "r", "form": "decorator"}
    ins = [targeted.inp("x", "x", SI), targeted.inp("y", "y", SI), targeted.inp("z", "z", SI)]
    pr = targeted.prog(ins + [scale_def("z"), {"k": "call", "x": "r0", "f": "scale", "args": ["x"], "kwargs": []}], [("o", "P0", "r0")],
                       ["text-variant", "keyword-only-argument-given-at-the-call"])
    pr["text"] = head + kwdef + "    r0 = f(x, k=z)\n    return [Output(r0, 'o', party_P0)]\n"
    progs.append(pr)
    pr = targeted.prog(ins + [scale_def("y"), {"k": "call", "x": "r0", "f": "scale", "args": ["x"], "kwargs": []}], [("o", "P0", "r0")],
                       ["text-variant", "keyword-only-parameter-left-to-its-default"])
    pr["text"] = head + kwdef + "    r0 = f(x)\n    return [Output(r0, 'o', party_P0)]\n"
    progs.append(pr)
    pr = targeted.prog([targeted.inp("xs", "xs", ("arr", SI, 3)), targeted.inp("y", "y", SI), scale_def("y"),
                        {"k": "map", "x": "m", "a": "xs", "f": "scale"}], [("o", "P0", "m")],
                       ["text-variant", "keyword-only-parameter-in-a-mapped-function"])
    pr["text"] = ("from nada_dsl import *\n\n\ndef nada_main():\n    party_P0 = Party(name='P0')\n"
                  "    xs = Array(SecretInteger(Input(name='xs', party=party_P0)), size=3)\n    y = SecretInteger(Input(name='y', party=party_P0))\n"
                  "    def scale(v: SecretInteger, *, k: SecretInteger = y) -> SecretInteger:\n        r = v * k\n        return r\n"
                  "    m = xs.map(scale)\n    return [Output(m, 'o', party_P0)]\n")
    progs.append(pr)
    # an array size given as a Nada literal instead of a plain number (twelfth seeding round): rejected today; if it is
    # ever accepted the array has that size, as a number
    pr = targeted.prog([targeted.inp("xs", "xs", ("arr", SI, 3)), targeted.inp("ys", "ys", ("arr", SI, 3)), {"k": "zip", "x": "z", "a": "xs", "b": "ys"}],
                       [("o", "P0", "z"), ("p", "P0", "xs")], ["text-variant", "array-size-given-as-a-literal"])
    text = surface.to_python(pr)
    assert text.count("size=3") == 2, text
    pr["text"] = text.replace("size=3", "size=Integer(3)")
    progs.append(pr)
    # parameters with default values are parameters (fourteenth seeding round), and a function made by a factory has the
    # annotations it was made with
    PI_ = targeted.S("Public", "Int")
    pr = targeted.prog([targeted.inp("x", "x", SI), targeted.inp("y", "y", PI_), targeted.inp("z", "z", PI_),
                        {"k": "def", "f": "scale", "params": [("a", SI), ("k", PI_)], "ret": SI, "body": [{"k": "bin", "x": "r", "op": "OMul", "a": "a", "b": "k"}], "res": "r", "form": "decorator"},
                        {"k": "call", "x": "r0", "f": "scale", "args": ["x", "z"], "kwargs": []}], [("o", "P0", "r0")], ["text-variant", "parameter-with-a-default-value"])
    text = surface.to_python(pr)
    assert "def scale(a: SecretInteger, k: PublicInteger) -> SecretInteger:" in text, text
    pr["text"] = text.replace("def scale(a: SecretInteger, k: PublicInteger) -> SecretInteger:", "def scale(a: SecretInteger, k: PublicInteger = y) -> SecretInteger:")
    progs.append(pr)
    pr = targeted.prog([targeted.inp("arr", "arr", ("arr", SI, 3)), targeted.inp("x", "x", SI),
                        {"k": "def", "f": "total", "params": [("acc", SI), ("a", SI)], "ret": SI, "body": [{"k": "bin", "x": "s", "op": "OAdd", "a": "acc", "b": "a"}], "res": "s", "form": "decorator"},
                        {"k": "reduce", "x": "r0", "a": "arr", "f": "total", "init": "x"}], [("o", "P0", "r0")], ["text-variant", "reduced-function-with-a-default-value"])
    text = surface.to_python(pr)
    assert "def total(acc: SecretInteger, a: SecretInteger) -> SecretInteger:" in text, text
    pr["text"] = text.replace("def total(acc: SecretInteger, a: SecretInteger) -> SecretInteger:", "def total(acc: SecretInteger, a: SecretInteger = x) -> SecretInteger:")
    progs.append(pr)
    addf = lambda t: {"k": "def", "f": "add", "params": [("acc", t), ("item", t)], "ret": t, "body": [{"k": "bin", "x": "s", "op": "OAdd", "a": "acc", "b": "item"}], "res": "s", "form": "decorator"}
    pr = targeted.prog([targeted.inp("ss", "ss", ("arr", SI, 3)), targeted.inp("s0", "s0", SI), targeted.inp("ps", "ps", ("arr", PI_, 2)), targeted.inp("q0", "q0", PI_),
                        addf(SI), {"k": "reduce", "x": "r1", "a": "ss", "f": "add", "init": "s0"},
                        addf(PI_), {"k": "reduce", "x": "r2", "a": "ps", "f": "add", "init": "q0"}],
                       [("o1", "P0", "r1"), ("o2", "P0", "r2")], ["text-variant", "functions-made-by-a-factory"])
    pr["text"] = ("from nada_dsl import *\n\n\ndef adder(ty):\n    def add(acc: ty, item: ty) -> ty:\n        s = acc + item\n        return s\n    return add\n\n\n"
                  "def nada_main():\n    party_P0 = Party(name='P0')\n    ss = Array(SecretInteger(Input(name='ss', party=party_P0)), size=3)\n"
                  "    s0 = SecretInteger(Input(name='s0', party=party_P0))\n    ps = Array(PublicInteger(Input(name='ps', party=party_P0)), size=2)\n"
                  "    q0 = PublicInteger(Input(name='q0', party=party_P0))\n    r1 = ss.reduce(adder(SecretInteger), s0)\n    r2 = ps.reduce(adder(PublicInteger), q0)\n"
                  "    return [Output(r1, 'o1', party_P0), Output(r2, 'o2', party_P0)]\n")
    progs.append(pr)
    # ... or as a Python bool / float / negative number: rejecting is fine; an accepted array has a plain non-negative size
    for tag, spelt, n in (("array-size-given-as-a-bool", "True", 1), ("array-size-given-as-a-float", "3.0", 3), ("array-size-negative", "-2", 0)):
        pr = targeted.prog([targeted.inp("xs", "xs", ("arr", SI, n)), targeted.inp("a", "a", SI)], [("p", "P0", "xs"), ("o", "P0", "a")], ["text-variant", tag])
        text = surface.to_python(pr)
        assert text.count(f"size={n})") == 1, text
        pr["text"] = text.replace(f"size={n})", f"size={spelt})")
        progs.append(pr)
    return progs


def plain_reduce_seed_programs():
    """xs.reduce(add, 0): a plain Python number as the initial value (rejected by the unchanged library); if it is ever
    accepted, the literal it becomes must have the accumulator's type"""
    import targeted
    progs = []
    for mode, base in (("Secret", "UInt"), ("Public", "UInt"), ("Secret", "Int")):
        t = targeted.S(mode, base)
        body = [{"k": "bin", "x": "s", "op": "OAdd", "a": "acc", "b": "e"}]
        pr = targeted.prog([targeted.inp("xs", "xs", ("arr", t, 3)), {"k": "lit", "x": "z", "b": base, "v": 0},
                            {"k": "def", "f": "add", "params": [("acc", t), ("e", t)], "ret": t, "body": body, "res": "s", "form": "decorator"},
                            {"k": "reduce", "x": "r", "a": "xs", "f": "add", "init": "z"}], [("o", "P0", "r")], ["plain-number-seed"])
        text = surface.to_python(pr)
        lit_line = [l for l in text.split("\n") if l.strip().startswith("z = ")][0]
        text = text.replace(lit_line + "\n", "")
        assert "reduce(add, z)" in text, text
        text = text.replace("reduce(add, z)", "reduce(add, 0)")
        pr["text"] = text
        progs.append(pr)
    return progs


def after_failed_compilation_case(ctx, preds, classify):
    """a program whose COMPILATION raises (two different inputs under one name), then a valid program in the same process:
    the predicates are evaluated on the MIR of the valid one"""
    import json
    import os
    import shutil
    import tempfile
    import targeted
    bad = targeted.prog([targeted.inp("x1", "x", targeted.SI, "P0"), targeted.inp("k", "k", targeted.PI, "P1"),
                         targeted.inp("x2", "x", targeted.SI, "P1"),
                         {"k": "bin", "x": "s", "op": "OAdd", "a": "x1", "b": "k"}],
                        [("o1", "P0", "s"), ("o2", "P1", "x2")], ["dup-input"])
    good = targeted.prog([targeted.inp("y", "y", targeted.SI, "P2"), targeted.inp("k2", "k", targeted.SI, "P2"),
                          {"k": "lit", "x": "c", "b": "Int", "v": 3},
                          {"k": "bin", "x": "t", "op": "OMul", "a": "y", "b": "c"}, {"k": "bin", "x": "u", "op": "OSub", "a": "t", "b": "k2"}],
                         [("r", "P2", "u")], ["after-failed-compilation"])
    d = tempfile.mkdtemp(prefix="nadaverif_afterfail_")
    try:
        pa, pb = os.path.join(d, "rejected.py"), os.path.join(d, "valid.py")
        open(pa, "w").write(surface.to_python(bad))
        open(pb, "w").write(surface.to_python(good))
        sp = os.path.join(d, "spec.json")
        json.dump({"steps": [pa], "probe": pb, "timers": False}, open(sp, "w"))
        rc, out, err, dt = vlib.run([vlib.PY, os.path.join(vlib.VERIF, "tools", "run_history.py"), sp], 180, cwd=d, env=vlib.impl_env())
    finally:
        shutil.rmtree(d, ignore_errors=True)
    ls = [l for l in out.splitlines() if l.startswith("{")]
    if not ls:
        raise RuntimeError("after-failed-compilation case: harness failed: " + vlib.clean_noise(err)[-400:])
    res = json.loads(ls[-1])
    exprs = list(preds.values())
    outp, errors = progrun.eval_over_cases(ctx, "after_failed", IMPORTS, [good], [res], exprs)
    if errors:
        raise RuntimeError("cases after_failed failed: " + errors[0][1])
    nbad = 0
    for name, e in preds.items():
        if outp[e] or "ok" not in res:
            nbad += 1
            key, what = classify(name, good, res)
            vlib.report_failure(ctx, key + ":after-failed-compilation",
                                what + " — for a valid program compiled after a program whose compilation raised, in one process",
                                dict(case=dict(kind="two-programs-one-process", first_program=surface.to_python(bad), second_program=surface.to_python(good),
                                               first_outcome=res.get("log")),
                                     observed=(res if "ok" not in res else {k: res["ok"][k] for k in ("inputs", "parties", "literals", "outputs")}),
                                     how_to_replay="write both programs to files; tools/run_history.py with steps=[rejected.py], probe=valid.py"))
    ctx.note(f"validate: valid program compiled after a failed compilation in one process: {nbad} predicate(s) violated")
    ctx.cov["after_failed_compilation_case"] = True


def generic_run(ctx, preds, classify, n_quick=300, n_thorough=6000, level="proof", second_compilation=False, after_failed=False, plain_left=False, text_variants=False, other_spellings=False, api_probe=False, rejected_valid=None, extra_families=None):
    """shared body of the program-level checks: extract, prove, validate preds on implementation MIRs, tie the model"""
    import targeted
    ok_x = vlib.step_extract(ctx)
    ok_p = vlib.step_prove(ctx) if ok_x else False
    n = n_quick if ctx.tier == "quick" else n_thorough
    tg = targeted.all_families() + list(extra_families or [])
    progs, results, bad = run_programs(ctx, n, tg, preds)
    nacc = sum(1 for r in results if "ok" in r)
    for name, idxs in bad.items():
        ctx.note(f"validate: {name} evaluated in Coq on {len(progs)} programs ({nacc} accepted by the implementation): {len(idxs)} violating")
        for i in idxs:
            key, what = classify(name, progs[i], results[i])
            vlib.report_failure(ctx, key, what, replay_payload(progs[i], results[i]))
    if second_compilation:
        second_compilation_case(ctx, preds, classify)
    if plain_left:
        plain_left_operand_case(ctx, preds, classify)
    if api_probe:
        api_probe_case(ctx, {k: v for k, v in preds.items() if "must" not in k}, ctx.prop, "public API probe")
    if other_spellings:
        other_spellings_case(ctx, 12 if ctx.tier == "quick" else 150)
    if text_variants:
        may_reject_family(ctx, {k: v for k, v in preds.items() if "must" not in k}, classify, text_variant_programs(), "unusual-but-legal-spelling",
                          "outputs handed over as a generator / iterator / tuple, literals built from Python booleans", "text_variants")
    if after_failed:
        after_failed_compilation_case(ctx, {k: v for k, v in preds.items() if "must" not in k}, classify)
    if ok_x:
        dis = tie_model(ctx, progs, results)
        if dis is not None:
            ctx.note(f"tie: model vs implementation on {len(progs)} programs: {len(dis)} disagree")
            ctx.cov["model_impl_disagreements"] = len(dis)
            if dis:
                ctx.broken.append(dict(kind="correspondence", what="model and implementation disagree",
                                       detail=surface.to_python(progs[dis[0]])))
                if rejected_valid:
                    # among the disagreements: programs the trace / compile model compiles and the implementation rejects
                    sub = [i for i in dis if "ok" not in results[i]][:40]
                    o2, e2 = progrun.eval_over_cases(ctx, ctx.prop.lower() + "_rejected", IMPORTS, [progs[i] for i in sub], [results[i] for i in sub], [MODEL_ACCEPTS])
                    for j in ([] if e2 else o2[MODEL_ACCEPTS])[:3]:
                        i = sub[j]
                        kw = rejected_valid(progs[i], results[i])
                        if kw:
                            vlib.report_failure(ctx, kw[0], kw[1], replay_payload(progs[i], results[i]))
    standard_cov(ctx, progs, results, len(tg))
    ctx.cov["disagreements_checked"] = len(progs)
    return vlib.finish(ctx, level=level)
