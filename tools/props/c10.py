"""C10 — the program's inputs, outputs and parties are reproduced exactly."""
from props import mirprop as mp


def classify(name, prog, res):
    tags = prog.get("tags") or []
    if name == "must-reject":
        if "diff-party" in tags:
            return "C10/accepts:same-input-name-different-parties", "two different inputs under one name (owned by different parties) were accepted"
        return "C10/accepts:" + ",".join(tags), "a program that must be rejected was compiled"
    return "C10/interface", "inputs / outputs / parties of the MIR differ from the program's (Spec/ProgSpec.v interfaceb)"


def run(ctx):
    return mp.generic_run(ctx, {"interfaceb": mp.on_case("interfaceb"), "must-reject": mp.on_prog_outcome("c10_must_reject")}, classify, after_failed=True, text_variants=True,
                          rejected_valid=lambda prog, res: (
                              "C10/rejected:" + str(res.get("exc")),
                              f"a program that declares no two inputs under one name and outputs only Nada values is rejected ({res.get('exc')}: {str(res.get('msg'))[:120]}) "
                              "instead of being compiled with its inputs, outputs and parties (the trace / compile model compiles it)"))
