"""C05 — every type in the MIR is well formed and consistent along every edge."""
import vlib
import targeted
from props import mirprop as mp


def has_array_param(stmts):
    return any(s["k"] == "def" and (any(t[0] == "arr" for _, t in s["params"]) or has_array_param(s["body"])) for s in stmts)


def call_argument_mismatch(mir):
    """a NadaFunctionCall whose argument's recorded type differs from the callee's declared parameter type"""
    tables = [mir["operations"]] + [f["operations"] for f in mir["functions"]]
    funs = {f["id"]: f for f in mir["functions"]}
    for t in tables:
        for op in t.values():
            if not isinstance(op, dict):
                continue
            c = op.get("NadaFunctionCall")
            if c and c["function_id"] in funs:
                params = funs[c["function_id"]]["args"]
                for a, prm in zip(c["args"], params):
                    src = t.get(str(a)) or t.get(a)
                    if src:
                        (_, body), = src.items()
                        if body.get("type") != prm["type"]:
                            return True
            r = op.get("Reduce")
            if r and r["fn"] in funs and len(funs[r["fn"]]["args"]) == 2:
                src = t.get(str(r["initial"])) or t.get(r["initial"])
                if src:
                    (_, body), = src.items()
                    if body.get("type") != funs[r["fn"]]["args"][0]["type"]:
                        return True
    return False


def key_of(prog, mir):
    shapes = mp.scan_types(mir)
    if not shapes and set(prog.get("tags") or []) & {"untruthful-annotation", "reduce-public-seed"} and call_argument_mismatch(mir):
        return "C05/edge:call-argument-type-differs-from-parameter"
    if mp.captures_enclosing_param(prog["stmts"]) and not shapes:
        return "C05/scope:param-of-enclosing-fn"
    if shapes and shapes <= {"param:array-no-size", "array-no-size"} and has_array_param(prog["stmts"]):
        return "C05/incomplete:array-param-without-size"
    if shapes and all(s.startswith("bare:") or s.startswith("param:bare:") for s in shapes):
        return "C05/incomplete:bare-component-name"
    if shapes == {"array-no-size"} and "size-0" in (prog.get("tags") or []):
        return "C05/incomplete:size-0-array"
    return "C05/types:" + ",".join(sorted(shapes)) if shapes else "C05/edge"


ELEMENT_KIND = {"secret-array": "secret", "public-array": "public", "pairs": "pair"}


def key_of_api_call(call):
    """which open finding an accepted public-API call belongs to, decided from the CALL (receiver, method, argument kinds),
    not from how its MIR fails; None for everything else (its own key)"""
    import re
    m = re.match(r"([\w-]+)\.(map|reduce)\(([^)]*)\)$", call)
    if not m:
        return None
    rk, meth, args = m.group(1), m.group(2), [a.strip() for a in m.group(3).split(",") if a.strip()]
    if not args or args[0] not in ("fn1", "fn2"):
        return None
    arity = 1 if args[0] == "fn1" else 2
    if arity != (1 if meth == "map" else 2):
        return "C05/api:map-or-reduce-function-of-another-arity"
    # fn1 / fn2 take SecretInteger parameters: another element kind or another seed kind is the unchecked-argument finding
    if ELEMENT_KIND.get(rk) != "secret" or (meth == "reduce" and args[1:] != ["secret"]):
        return "C05/edge:call-argument-type-differs-from-parameter"
    return None


def run(ctx):
    ok_x = vlib.step_extract(ctx)
    ok_p = vlib.step_prove(ctx) if ok_x else False
    n = 300 if ctx.tier == "quick" else 6000
    tg = targeted.all_families()
    progs, results, bad = mp.run_programs(ctx, n, tg, {"C05": mp.on_mir("C05b")})
    ctx.note(f"validate: C05b evaluated in Coq on {sum(1 for r in results if 'ok' in r)} implementation MIRs: {len(bad['C05'])} violating")
    for i in bad["C05"]:
        vlib.report_failure(ctx, key_of(progs[i], results[i]["ok"]),
                            "a type recorded in the MIR is incomplete or inconsistent along an edge (Spec/MirSpec.v C05b)",
                            mp.replay_payload(progs[i], results[i]))
    # a plain Python number as the initial value of a reduce: rejected today; if accepted, the types must still agree
    mp.may_reject_family(ctx, {"C05": mp.on_mir("C05b")},
                         lambda name, prog, res: ("C05/edge:plain-number-seed", "a type recorded in the MIR is inconsistent along an edge (Spec/MirSpec.v C05b)"),
                         mp.plain_reduce_seed_programs(), "plain-number-as-reduce-seed",
                         "xs.reduce(f, 0) with a plain Python number as the initial value", "plain_seed")
    mp.may_reject_family(ctx, {"C05": mp.on_mir("C05b")},
                         lambda name, prog, res: ("C05/types:text-variant", "a type recorded in the MIR is incomplete or inconsistent along an edge (Spec/MirSpec.v C05b)"),
                         mp.text_variant_programs(), "unusual-but-legal-spelling",
                         "outputs handed over as a generator / iterator / tuple, literals built from Python booleans, keyword-only parameters, a literal as array size", "text_variants")
    mp.api_probe_case(ctx, {"C05b": mp.on_mir("C05b")}, "C05", "public API probe", key_of_api_call)
    if ok_x:
        dis = mp.tie_model(ctx, progs, results)
        if dis is not None:
            ctx.note(f"tie: model vs implementation on {len(progs)} programs: {len(dis)} disagree")
            ctx.cov["model_impl_disagreements"] = len(dis)
            if dis:
                ctx.broken.append(dict(kind="correspondence", what="model and implementation disagree",
                                       detail=mp.surface.to_python(progs[dis[0]])))
    mp.standard_cov(ctx, progs, results, len(tg))
    ctx.cov['disagreements_checked'] = len(progs)
    return vlib.finish(ctx, level='translation_validation')
