"""C02 — scalar operators: exactly the allowed pairs, the ruled result type."""
import json

import vlib
from props import scalar_common as sc

# failing cells are keyed by class; provenance "param" with only-literal operands is the
# literal-typed-parameter placeholder defect
def key_of(cell_key, codes):
    provs = [p for _, ps in codes for p in ps]
    kinds = sorted({c[0] for c, _ in codes})
    if len(codes) == 2 and cell_key[0] in ("ODiv", "OMod"):
        (c0, _), (c1, ps1) = codes
        if (c0[0] == "F" and c1 == ["R", "ZeroDivisionError"] and all(p.startswith("param") for p in ps1)
                and all(t[0] == "Const" and t[1] != "Bool" for t in cell_key[1:])):
            return "C02/provenance:literal-typed-param-placeholder"
    return "C02/cell:" + json.dumps(cell_key)


def run(ctx):
    ok_x = vlib.step_extract(ctx)
    ok_p = vlib.step_prove(ctx) if ok_x else False
    if ok_x and not ok_p:
        pass
    data = sc.run_impl_table(ctx, ctx.tier)
    cells = data["cells"]
    text = sc.HEAD + "From NadaV.Spec Require Import TypingSpec.\n" + sc.cells_text(cells) + \
        "Eval vm_compute in (spec_violations cells).\n"
    rc, out, err, dt = vlib.eval_cases(ctx, "c02_spec", text)
    if rc != 0:
        raise RuntimeError("cases c02_spec failed: " + (out + err)[-2000:])
    viol = vlib.parse_zlist(vlib.parse_evals(out)[0])
    ctx.note(f"validate: spec evaluated in Coq on {len(cells)} implementation cells: {len(viol)} violating ({dt:.1f}s)")
    for i in viol:
        key, codes = cells[i]
        vlib.report_failure(ctx, key_of(key, codes), f"cell {key} observed {codes}",
                            dict(case=dict(kind="operand-types", cell=key, observed=codes),
                                 expected="outcome prescribed by Spec/TypingSpec.v (conforms)",
                                 how_to_replay=sc.python_snippet(key, codes[0][1][0])))
    # provenance independence: every cell must have exactly one outcome class
    nprov = 0
    for key, codes in cells:
        classes = {json.dumps([c[0], c[1] if c[0] in ("F", "E") else None]) for c, _ in codes}
        if len(classes) > 1:
            nprov += 1
            vlib.report_failure(ctx, key_of(key, codes),
                                f"outcome of {key} depends on operand provenance: {codes}",
                                dict(case=dict(kind="operand-types", cell=key, observed=codes),
                                     expected="one outcome for all provenances",
                                     how_to_replay=sc.python_snippet(key, "all")))
    ctx.note(f"validate: {nprov} cells whose outcome depends on provenance")
    mism = None
    if ok_x:
        text = sc.HEAD + "From NadaV.Gen Require Import GenScalar.\n" + sc.cells_text(cells) + \
            "Eval vm_compute in (mismatches G cells).\n"
        rc, out, err, dt = vlib.eval_cases(ctx, "c02_model", text)
        if rc != 0:
            ctx.broken.append(dict(kind="correspondence", what="model evaluation of the scalar table failed",
                                   detail=(out + err)[-1500:]))
        else:
            mism = vlib.parse_zlist(vlib.parse_evals(out)[0])
            # cells whose only disagreement is a listed known finding do not break the tie
            real = []
            for i in mism:
                key, codes = cells[i]
                k = key_of(key, codes)
                if any(kf["property"] == "C02" and kf["key"] == k and kf.get("status", "open") == "open"
                       for kf in vlib.load_known()):
                    continue
                real.append(i)
            ctx.note(f"tie: model vs implementation on {len(cells)} cells: {len(mism)} disagree "
                     f"({len(mism) - len(real)} explained by known findings) ({dt:.1f}s)")
            if real:
                ctx.broken.append(dict(kind="correspondence", what="model and implementation disagree on cells",
                                       detail=json.dumps([cells[i] for i in real[:5]])))
    ctx.cov.update(
        evaluations=data["evaluations"],
        distinct_nontrivial=sum(1 for k, cs in cells if any(c[0] in ("E", "F", "S") for c, _ in cs)),
        rule="every operator/method x every ordered tuple of the 9 scalar types x operand provenances "
             f"{data['provenances']} on the real classes; distinct = (operator, type tuple) cells; "
             "non-trivial = accepted by the implementation under at least one provenance",
        exhaustive=True,
        samples=[dict(cell=k, outcomes=cs) for k, cs in cells[:3]] + [dict(cell=k, outcomes=cs) for k, cs in cells if k[0] == "IfElse" and cs[0][0][0] == "E"][:2],
        traces_validated_against_impl=len(cells),
        outcome_histogram=data["histogram"],
        model_impl_disagreements=(len(mism) if mism is not None else None),
    )
    return vlib.finish(ctx)
