"""C06 — literal-only expressions fold to the exact result."""
import json
import os

import vlib
from vlib import gstr, gz, glist
from props import scalar_common as sc
import gen_ints

BASE = {"Bool": "BBool", "Int": "BInt", "UInt": "BUInt"}


def run_impl(cases):
    rc, out, err, dt = vlib.run([vlib.PY, os.path.join(vlib.VERIF, "tools", "impl_fold.py")], 1800, cwd="/",
                                env=vlib.impl_env(), input=json.dumps(cases))
    if rc != 0:
        raise RuntimeError("impl_fold.py failed: " + vlib.clean_noise(err)[-2000:])
    return json.loads(out[out.index("["):]), dt


def gcase(c):
    base, x, y, outs = c
    return f"({BASE[base]}, {gz(x)}, {gz(y)}, {glist([f'({o}, {sc.gicode(code)})' for o, code in outs])})"


def shard_eval(ctx, name, head, cases, expr, nshards):
    """Evaluate `expr` (a function of `cases`) over shards in parallel; returns global indices."""
    import concurrent.futures
    per = (len(cases) + nshards - 1) // nshards
    jobs = []
    for s in range(nshards):
        chunk = cases[s * per:(s + 1) * per]
        if not chunk:
            continue
        text = head + "Definition cases : list fold_case :=\n  [" + ";\n   ".join(gcase(c) for c in chunk) + "].\n" \
            + f"Eval vm_compute in ({expr}).\n"
        jobs.append((s, f"{name}_{s}", text))
    res = []
    with concurrent.futures.ThreadPoolExecutor(max_workers=vlib.NCPU) as ex:
        futs = {ex.submit(vlib.eval_cases, ctx, n, t, 900): s for s, n, t in jobs}
        for f in concurrent.futures.as_completed(futs):
            s = futs[f]
            rc, out, err, dt = f.result()
            if rc != 0:
                return None, (out + err)[-1500:]
            res += [s * per + i for i in vlib.parse_zlist(vlib.parse_evals(out)[0])]
    return sorted(res), None


def run(ctx):
    ok_x = vlib.step_extract(ctx)
    ok_p = vlib.step_prove(ctx) if ok_x else False
    n = 400 if ctx.tier == "quick" else 6000
    cases_in = gen_ints.pairs(ctx.seed, n)
    # one probe of the CPython int->str digit limit (known finding): 2^1023 ** 14 has > 4300 digits
    cases_in.append(["UInt", 2 ** 1023, 14, "huge"])
    outs, dt = run_impl(cases_in)
    nevals = sum(len(c[3]) for c in outs)
    ctx.note(f"impl: {len(outs)} literal pairs, {nevals} real folded operations ({dt:.1f}s)")
    head = sc.HEAD + "From NadaV.Spec Require Import FoldSpec.\n"
    viol, e = shard_eval(ctx, "c06_spec", head, outs, "fold_spec_violations cases", 8 if ctx.tier == "quick" else 16)
    if viol is None:
        raise RuntimeError("cases c06_spec failed: " + e)
    ctx.note(f"validate: exact-result specification evaluated in Coq on the implementation's folds: {len(viol)} violating pairs")
    for i in viol[:50]:
        base, x, y, res = outs[i]
        bad = [r for r in res]
        key = "C06/fold:" + ("truediv" if any(o == "ODiv" for o, _ in res) else "other")
        # shrink: report the smallest |x|+|y| violating pair first
    if viol:
        worst = sorted(viol, key=lambda i: (abs(outs[i][1]) + abs(outs[i][2])))
        for i in worst[:3]:
            base, x, y, res = outs[i]
            digits = lambda o: (abs(x).bit_length() * y if o == "OPow" else abs(x).bit_length() + y) * 0.30103
            bad = [o for o, c in res if c == ["R", "ValueError"] and o in ("OPow", "OLShift", "OMul") and digits(o) > 4300]
            others = [o for o, c in res if c[0] == "R" and o not in bad and not (y == 0 and o in ("ODiv", "OMod"))]
            if bad and not others:
                key = "C06/repr:int-max-str-digits"
            else:
                key = f"C06/fold:{base}:{x}:{y}" if len(str(x)) < 30 else f"C06/fold:{base}:big"
            vlib.report_failure(ctx, key,
                                f"folding {base}({x}) op {base}({y}) is not exact: {res}",
                                dict(case=dict(kind="literal-pair", base=base, x=str(x), y=str(y), observed=res),
                                     expected="exact Z arithmetic (Spec/FoldSpec.v)",
                                     how_to_replay=f"PYTHONPATH=<repo> /venv/bin/python -c \"from nada_dsl import *; a,b={'Integer' if base=='Int' else 'UnsignedInteger' if base=='UInt' else 'Boolean'}({x}),{'Integer' if base=='Int' else 'UnsignedInteger' if base=='UInt' else 'Boolean'}({y}); print((a/b).value,(a%b).value)\""))
    mism = None
    if ok_x:
        head = sc.HEAD + "From NadaV.Spec Require Import FoldSpec.\nFrom NadaV.Gen Require Import GenScalar.\n"
        mism, e = shard_eval(ctx, "c06_model", head, outs[:-1], "fold_mismatches G cases", 16)   # without the digit-limit probe
        if mism is None:
            ctx.broken.append(dict(kind="correspondence", what="model evaluation of literal folds failed", detail=e))
        else:
            ctx.note(f"tie: PyMini/model vs implementation on {len(outs)} literal pairs: {len(mism)} disagree")
            if mism:
                ctx.broken.append(dict(kind="correspondence", what="model and implementation disagree on folded values",
                                       detail=json.dumps([[str(v) for v in outs[i][:3]] for i in mism[:5]])))
    bits = lambda v: abs(v).bit_length()
    ctx.cov.update(
        evaluations=nevals,
        distinct_nontrivial=len({(c[0], c[1], c[2]) for c in outs if bits(c[1]) > 53 or bits(c[2]) > 53}),
        rule="structured literal pairs (magnitudes around 2^53, 2^64, 2^256, 2^1024, all sign combinations, exact and "
             "inexact quotients, small exponents/shift counts) x every foldable operator on the real literal classes; "
             "non-trivial = an operand beyond 2^53",
        samples=[dict(base=c[0], x=str(c[1]), y=str(c[2]), outcomes=c[3][:4]) for c in outs[:3]],
        traces_validated_against_impl=len(outs),
        magnitude_histogram={k: sum(1 for c in outs if lo <= max(bits(c[1]), bits(c[2])) < hi)
                             for k, (lo, hi) in {"<=53": (0, 54), "54-64": (54, 65), "65-256": (65, 257),
                                                 "257-1023": (257, 1024), ">=1024": (1024, 10 ** 6)}.items()},
        model_impl_disagreements=(len(mism) if mism is not None else None),
    )
    return vlib.finish(ctx)
