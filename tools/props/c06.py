"""C06 — literal-only expressions fold to the exact result."""
import json
import os

import vlib
from vlib import gstr, gz, glist
from props import scalar_common as sc
import gen_ints

BASE = {"Bool": "BBool", "Int": "BInt", "UInt": "BUInt"}


def run_impl(cases):
    rc, out, err, dt = vlib.run([vlib.PY, os.path.join(vlib.VERIF, "tools", "impl_fold.py")], 1800, cwd="/",
                                env=vlib.impl_env(), input=json.dumps(cases))
    if rc != 0:
        raise RuntimeError("impl_fold.py failed: " + vlib.clean_noise(err)[-2000:])
    return json.loads(out[out.index("["):]), dt


def gcase(c):
    base, x, y, outs = c
    return f"({BASE[base]}, {gz(x)}, {gz(y)}, {glist([f'({o}, {sc.gicode(code)})' for o, code in outs])})"


def shard_eval(ctx, name, head, cases, expr, nshards):
    """Evaluate `expr` (a function of `cases`) over shards in parallel; returns global indices."""
    import concurrent.futures
    per = (len(cases) + nshards - 1) // nshards
    jobs = []
    for s in range(nshards):
        chunk = cases[s * per:(s + 1) * per]
        if not chunk:
            continue
        text = head + "Definition cases : list fold_case :=\n  [" + ";\n   ".join(gcase(c) for c in chunk) + "].\n" \
            + f"Eval vm_compute in ({expr}).\n"
        jobs.append((s, f"{name}_{s}", text))
    res = []
    with concurrent.futures.ThreadPoolExecutor(max_workers=vlib.NCPU) as ex:
        futs = {ex.submit(vlib.eval_cases, ctx, n, t, 900): s for s, n, t in jobs}
        for f in concurrent.futures.as_completed(futs):
            s = futs[f]
            rc, out, err, dt = f.result()
            if rc != 0:
                return None, (out + err)[-1500:]
            res += [s * per + i for i in vlib.parse_zlist(vlib.parse_evals(out)[0])]
    return sorted(res), None


# ---------------------------------------------------------------- literal-only expressions inside programs
NUM_OPS = ["OAdd", "OSub", "OMul", "ODiv", "OMod", "OLt", "OGt", "OLe", "OGe", "OEq", "ONe"]
SPECIAL = [0, 1, -1, -2, 2, 3, 7, -7, 2 ** 61 - 1, 2 ** 61 + 10, 11, 2 ** 64 + 1, -(2 ** 90), 10 ** 30]


def literal_program(rng):
    """a surface program (tools/surface.py dict form) full of literal-only sub-expressions of all nestings, next to inputs"""
    n = [0]

    def fresh(p="v"):
        n[0] += 1
        return f"{p}{n[0]}"
    stmts, lits, bools, others = [], [], [], []       # lits: (var, base) literal-only numeric; bools: literal-only booleans
    base = rng.choice(["Int", "Int", "UInt"])
    vals = SPECIAL if base == "Int" else [v for v in SPECIAL if v >= 0]
    for _ in range(rng.choice([2, 3, 5])):
        x = fresh()
        stmts.append({"k": "lit", "x": x, "b": base, "v": rng.choice(vals)})
        lits.append(x)
    for _ in range(rng.choice([1, 2])):
        x, name = fresh(), fresh("in")
        stmts.append({"k": "input", "x": x, "name": name, "party": "P0", "doc": "", "t": ("s", rng.choice(["Public", "Secret"]), base)})
        others.append(x)
    for _ in range(rng.choice([3, 6, 10])):
        k = rng.random()
        x = fresh()
        if k < 0.55:
            o = rng.choice(NUM_OPS if base == "Int" else [q for q in NUM_OPS if q != "OSub"])
            a, b = rng.choice(lits), rng.choice(lits)
            stmts.append({"k": "bin", "x": x, "op": o, "a": a, "b": b})
            (bools if o in ("OLt", "OGt", "OLe", "OGe", "OEq", "ONe") else lits).append(x)
        elif k < 0.65 and bools:
            stmts.append({"k": "not", "x": x, "a": rng.choice(bools)})
            bools.append(x)
        elif k < 0.75 and len(bools) >= 2:
            stmts.append({"k": "bin", "x": x, "op": rng.choice(["OAnd", "OOr", "OXor", "OEq"]), "a": rng.choice(bools), "b": rng.choice(bools)})
            bools.append(x)
        elif k < 0.85:
            stmts.append({"k": "radd", "x": x, "n": rng.choice([0, 1, 5]), "a": rng.choice(lits)})
            lits.append(x)
        else:
            stmts.append({"k": "bin", "x": x, "op": rng.choice(["OAdd", "OMul"]), "a": rng.choice(others), "b": rng.choice(lits)})
            others.append(x)
    pool = lits + bools + others
    outs = []
    for i in range(rng.choice([2, 3, 4])):
        outs.append((f"out{i}", "P0", rng.choice(lits + bools) if rng.random() < 0.75 else rng.choice(pool)))
    return {"stmts": stmts, "outs": outs, "tags": [], "dead": False}


def programs_part(ctx, ok_x):
    import random
    import surface
    import progrun
    import mirprint
    rng = random.Random(ctx.seed + 6)
    n = 80 if ctx.tier == "quick" else 1500
    progs = [literal_program(rng) for _ in range(n)]
    # two fixed programs: literal values whose Python hashes collide, and the same value under two literal types
    progs.append({"stmts": [{"k": "lit", "x": "a", "b": "Int", "v": 1}, {"k": "lit", "x": "b", "b": "Int", "v": 2}, {"k": "lit", "x": "c", "b": "Int", "v": 4},
                            {"k": "bin", "x": "m1", "op": "OSub", "a": "a", "b": "b"}, {"k": "bin", "x": "m2", "op": "OSub", "a": "b", "b": "c"},
                            {"k": "lit", "x": "z", "b": "Int", "v": 0}, {"k": "lit", "x": "h", "b": "Int", "v": 2 ** 61 - 1},
                            {"k": "bin", "x": "n", "op": "OSub", "a": "z", "b": "c"}],
                  "outs": [("o1", "P0", "m1"), ("o2", "P0", "m2"), ("o3", "P0", "z"), ("o4", "P0", "h"), ("o5", "P0", "n")], "tags": [], "dead": False})
    results = progrun.run_impl(progs)
    exprs = ["(fun cs => indices_where (fun c : program * ioutcome => match snd c with IOk m => negb (c06_progb (fst c) m) | _ => false end) cs 0%Z)"]
    if ok_x:
        exprs.append("(fun cs => indices_where (fun c : program * ioutcome => negb (outcome_agrees (run GenScalar.G (fst c)) (snd c))) cs 0%Z)")
    out, errors = progrun.eval_over_cases(ctx, "c06_prog", "From NadaV.Gen Require GenScalar.\nFrom NadaV.Spec Require Import FoldSpec FoldProgSpec.\n",
                                          progs, results, exprs)
    if errors:
        raise RuntimeError("cases c06_prog failed: " + errors[0][1])
    bad = out[exprs[0]]
    nacc = sum(1 for r in results if "ok" in r)
    ctx.note(f"validate: {len(progs)} programs with nested literal-only sub-expressions ({nacc} accepted): outputs that are literal-only must reference "
             f"a literal-table entry holding the exact value (Spec/FoldProgSpec.c06_progb, in Coq): {len(bad)} violating")
    for i in bad[:3]:
        m = results[i]["ok"]
        vlib.report_failure(ctx, "C06/program:literal-table", "a literal-only output does not reference a literal entry with the exact value",
                            dict(case=dict(kind="program", python_source=surface.to_python(progs[i])),
                                 observed=dict(literals=m["literals"], outputs=m["outputs"],
                                               operations={k: v for k, v in list(m["operations"].items())[:12]})))
    if ok_x:
        dis = out[exprs[1]]
        ctx.note(f"tie: trace/compile model vs implementation on these {len(progs)} programs: {len(dis)} disagree")
        if dis:
            ctx.broken.append(dict(kind="correspondence", what="model and implementation disagree on a literal program",
                                   detail=surface.to_python(progs[dis[0]])))
    ctx.cov["literal_programs"] = len(progs)
    # literals beyond the interpreter's int -> str digit limit (open finding: rejected today): if such a program is ever
    # compiled, the literal table must hold the exact value — every digit, the zeros inside it too
    huge = []
    for (x, y, z) in ((10 ** 4000, 10 ** 1000, 0), (3 * 10 ** 2500, 10 ** 2000, 7), (10 ** 4100 + 1, 10 ** 300 + 10 ** 150, 10 ** 200)):
        huge.append({"stmts": [{"k": "lit", "x": "a", "b": "Int", "v": x}, {"k": "lit", "x": "b", "b": "Int", "v": y}, {"k": "lit", "x": "c", "b": "Int", "v": z},
                               {"k": "bin", "x": "m", "op": "OMul", "a": "a", "b": "b"}, {"k": "bin", "x": "n", "op": "OAdd", "a": "m", "b": "c"}],
                     "outs": [("o1", "P0", "n"), ("o2", "P0", "m")], "tags": ["huge-literals"], "dead": False})
    hres = progrun.run_impl(huge)
    hout, herr = progrun.eval_over_cases(ctx, "c06_huge", "From NadaV.Gen Require GenScalar.\nFrom NadaV.Spec Require Import FoldSpec FoldProgSpec.\n",
                                         huge, hres, exprs[:1])
    if herr:
        raise RuntimeError("cases c06_huge failed: " + herr[0][1])
    hbad = hout[exprs[0]]
    ctx.note(f"validate: {len(huge)} programs folding literals of more than 4300 digits: {sum(1 for r in hres if 'ok' in r)} compiled, {len(hbad)} with an inexact literal table")
    for i in hbad[:2]:
        m = hres[i]["ok"]
        vlib.report_failure(ctx, "C06/program:literal-table-huge", "a folded literal of more than 4300 digits is not recorded with its exact value",
                            dict(case=dict(kind="program", python_source=surface.to_python(huge[i])[:600] + " ..."),
                                 observed=dict(literals=[{k: (str(v)[:80] + "...") for k, v in l.items()} for l in m["literals"]][:6])))
    ctx.cov["literal_programs_accepted"] = nacc


def run(ctx):
    ok_x = vlib.step_extract(ctx)
    ok_p = vlib.step_prove(ctx) if ok_x else False
    n = 400 if ctx.tier == "quick" else 6000
    cases_in = gen_ints.pairs(ctx.seed, n)
    # one probe of the CPython int->str digit limit (known finding): 2^1023 ** 14 has > 4300 digits
    cases_in.append(["UInt", 2 ** 1023, 14, "huge"])
    outs5, dt = run_impl(cases_in)
    outs = [c[:4] for c in outs5]
    # a plain Python number on the left (x op T(y)): rejected, or folded to exactly what T(x) op T(y) folds to
    # (which the specification below checks against exact evaluation)
    npl = nplacc = 0
    for (base, x, y, res, plain) in outs5:
        typed = dict((o, c) for o, c in res)
        for o, c in plain:
            npl += 1
            if c[0] == "R":
                continue
            nplacc += 1
            if o in typed and c != typed[o]:
                vlib.report_failure(ctx, "C06/plain-left-operand:" + o,
                                    f"{x} {o} {base}({y}) with a plain number on the left gives {c}, the typed literal on the left gives {typed[o]}",
                                    dict(case=dict(kind="literal-pair", base=base, x=str(x), y=str(y), operator=o, left_operand="plain Python int"),
                                         observed=c, expected=typed[o],
                                         how_to_replay="PYTHONPATH=<repo> /venv/bin/python -c 'from nada_dsl import *; print((x <op> T(y)).value)'"))
                break
    ctx.note(f"validate: {npl} operations with a plain number on the left of a literal: {nplacc} accepted, each compared with the typed fold")
    nevals = sum(len(c[3]) for c in outs)
    ctx.note(f"impl: {len(outs)} literal pairs, {nevals} real folded operations ({dt:.1f}s)")
    head = sc.HEAD + "From NadaV.Spec Require Import FoldSpec.\n"
    viol, e = shard_eval(ctx, "c06_spec", head, outs, "fold_spec_violations cases", 8 if ctx.tier == "quick" else 16)
    if viol is None:
        raise RuntimeError("cases c06_spec failed: " + e)
    ctx.note(f"validate: exact-result specification evaluated in Coq on the implementation's folds: {len(viol)} violating pairs")
    for i in viol[:50]:
        base, x, y, res = outs[i]
        bad = [r for r in res]
        key = "C06/fold:" + ("truediv" if any(o == "ODiv" for o, _ in res) else "other")
        # shrink: report the smallest |x|+|y| violating pair first
    if viol:
        worst = sorted(viol, key=lambda i: (abs(outs[i][1]) + abs(outs[i][2])))
        for i in worst[:3]:
            base, x, y, res = outs[i]
            digits = lambda o: (abs(x).bit_length() * y if o == "OPow" else abs(x).bit_length() + y) * 0.30103
            bad = [o for o, c in res if c == ["R", "ValueError"] and o in ("OPow", "OLShift", "OMul") and digits(o) > 4300]
            others = [o for o, c in res if c[0] == "R" and o not in bad and not (y == 0 and o in ("ODiv", "OMod"))]
            if bad and not others:
                key = "C06/repr:int-max-str-digits"
            else:
                key = f"C06/fold:{base}:{x}:{y}" if len(str(x)) < 30 else f"C06/fold:{base}:big"
            vlib.report_failure(ctx, key,
                                f"folding {base}({x}) op {base}({y}) is not exact: {res}",
                                dict(case=dict(kind="literal-pair", base=base, x=str(x), y=str(y), observed=res),
                                     expected="exact Z arithmetic (Spec/FoldSpec.v)",
                                     how_to_replay=f"PYTHONPATH=<repo> /venv/bin/python -c \"from nada_dsl import *; a,b={'Integer' if base=='Int' else 'UnsignedInteger' if base=='UInt' else 'Boolean'}({x}),{'Integer' if base=='Int' else 'UnsignedInteger' if base=='UInt' else 'Boolean'}({y}); print((a/b).value,(a%b).value)\""))
    mism = None
    if ok_x:
        head = sc.HEAD + "From NadaV.Spec Require Import FoldSpec.\nFrom NadaV.Gen Require Import GenScalar.\n"
        mism, e = shard_eval(ctx, "c06_model", head, outs[:-1], "fold_mismatches G cases", 16)   # without the digit-limit probe
        if mism is None:
            ctx.broken.append(dict(kind="correspondence", what="model evaluation of literal folds failed", detail=e))
        else:
            ctx.note(f"tie: PyMini/model vs implementation on {len(outs)} literal pairs: {len(mism)} disagree")
            if mism:
                ctx.broken.append(dict(kind="correspondence", what="model and implementation disagree on folded values",
                                       detail=json.dumps([[str(v) for v in outs[i][:3]] for i in mism[:5]])))
    programs_part(ctx, ok_x)
    bits = lambda v: abs(v).bit_length()
    ctx.cov.update(
        evaluations=nevals,
        distinct_nontrivial=len({(c[0], c[1], c[2]) for c in outs if bits(c[1]) > 53 or bits(c[2]) > 53}),
        rule="structured literal pairs (magnitudes around 2^53, 2^64, 2^256, 2^1024, all sign combinations, exact and "
             "inexact quotients, small exponents/shift counts) x every foldable operator on the real literal classes; "
             "non-trivial = an operand beyond 2^53",
        samples=[dict(base=c[0], x=str(c[1]), y=str(c[2]), outcomes=c[3][:4]) for c in outs[:3]],
        traces_validated_against_impl=len(outs),
        magnitude_histogram={k: sum(1 for c in outs if lo <= max(bits(c[1]), bits(c[2])) < hi)
                             for k, (lo, hi) in {"<=53": (0, 54), "54-64": (54, 65), "65-256": (65, 257),
                                                 "257-1023": (257, 1024), ">=1024": (1024, 10 ** 6)}.items()},
        model_impl_disagreements=(len(mism) if mism is not None else None),
    )
    return vlib.finish(ctx)
