"""C16 — the auditor is total: always terminates with a report, runs no audited code."""
import collections
import json
import os
import re

import vlib
import audit_texts


def run_audit(texts, chunk=80):
    import concurrent.futures
    chunks = [texts[i:i + chunk] for i in range(0, len(texts), chunk)]

    def one(ch):
        rc, out, err, dt = vlib.run([vlib.PY, os.path.join(vlib.VERIF, "tools", "impl_audit.py")], 900, cwd="/", env=vlib.impl_env(),
                                    input=json.dumps(ch))
        if rc != 0 or "[" not in out:
            raise RuntimeError("impl_audit.py failed: " + vlib.clean_noise(err)[-800:])
        return json.loads(out[out.index("["):])
    res = []
    with concurrent.futures.ThreadPoolExecutor(max_workers=vlib.NCPU) as ex:
        for r in ex.map(one, chunks):
            res += r
    return res


def klass(r):
    """class label of a non-total outcome"""
    if r["execs"]:
        return "C16/exec:annotation-evaluated"
    if r["outcome"] == "timeout":
        return "C16/diverge:" + r.get("site", "?").split(":")[1]
    if r["outcome"] == "raise":
        site = r.get("site", "?:?:?").split(":")
        line = re.sub(r"\s+", " ", site[2])[:40] if len(site) > 2 else ""
        if r["exc"] == "RecursionError":      # where exactly the limit is hit is not part of what fails
            return f"C16/raise:RecursionError@{site[0]}:{site[1]}"
        return f"C16/raise:{r['exc']}@{site[0]}:{site[1]}:{line}"
    return None


def run(ctx):
    ok_x = vlib.step_extract(ctx)
    ok_p = vlib.step_prove(ctx) if ok_x else False
    ts = audit_texts.all_texts(ctx.seed, ctx.tier)
    rp = vlib.replay_case(ctx)
    if rp is not None and "source_text" in rp:
        ts = [(rp.get("name", "replay"), rp["source_text"])]
        ctx.note("replay: the source text of " + ctx.replay)
    res = run_audit([t for _, t in ts])
    hist = collections.Counter()
    for (name, text), r in zip(ts, res):
        k = klass(r)
        hist[k or "ok"] += 1
        if k:
            vlib.report_failure(ctx, k, f"strict() on the text `{name}`: {r['outcome']} {r.get('exc', '')} {r.get('msg', '')[:80]} "
                                f"{'(audited code executed: ' + str(r['execs'][:3]) + ')' if r['execs'] else ''}",
                                dict(case=dict(kind="source-text", name=name, source_text=text), observed={k2: r.get(k2) for k2 in ("outcome", "exc", "msg", "site", "execs")},
                                     how_to_replay="PYTHONPATH=<repo> /venv/bin/python -c \"from nada_dsl.audit import strict, html; html(strict(open('t.py').read()))\""))
    ctx.note(f"validate: strict()+html() on {len(ts)} source texts under a 5 s alarm and an exec audit hook: {hist.get('ok', 0)} total, "
             f"{len(ts) - hist.get('ok', 0)} not ({len([k for k in hist if k != 'ok'])} classes)")
    ctx.cov.update(evaluations=len(ts), distinct_nontrivial=len({t for _, t in ts}),
                   rule="source texts: every Python statement / expression form placed in nada_main, at module level and in a helper function; "
                        "layout variants; edge texts (empty, whitespace, CRLF, only syntax errors); random line mutations of a strict-subset "
                        "program; each audited by the real strict()+html() under an alarm and an interpreter audit hook",
                   samples=[dict(name=ts[i][0], text=ts[i][1][:200], outcome=res[i]["outcome"]) for i in (0, 20, 200) if i < len(ts)],
                   traces_validated_against_impl=len(ts), outcome_histogram={str(k): v for k, v in hist.items()})
    return vlib.finish(ctx)
