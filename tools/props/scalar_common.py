"""Shared by C02 / C03 / C06: run the real scalar classes on the whole operator table and
turn the observed outcomes into Gallina [cell]s."""
import json
import os

import vlib
from vlib import gstr, gz, glist

STY = {"Const": "MConst", "Public": "MPublic", "Secret": "MSecret"}
BASE = {"Bool": "BBool", "Int": "BInt", "UInt": "BUInt"}


def gsty(t):
    return f"({STY[t[0]]}, {BASE[t[1]]})"


def gicode(c):
    k = c[0]
    if k == "R":
        return f"(IR {gstr(c[1])})"
    if k == "F":
        return f"(IF {gstr(c[1])} {'None' if c[2] is None else '(Some ' + gz(c[2]) + ')'})"
    if k == "E":
        roles = glist([f"({gstr(r[0])}, {gz(r[1])})" for r in c[3]])
        return f"(IE {gstr(c[1])} {gstr(c[2])} {roles} {gstr(c[4])})"
    if k == "S":
        return f"(IS {gz(c[1])})"
    if k == "N":
        return f"(IN {gstr(c[1])})"
    if k == "X":
        return f"(IX {gstr(c[1])})"
    raise ValueError(c)


def gcell(key, codes):
    cs = glist([gicode(c) for c, _ in codes])
    if key[0] == "IfElse":
        return f"Cell3 {gsty(key[1])} {gsty(key[2])} {gsty(key[3])} {cs}"
    if key[0] in ("UInvert", "UToPublic"):
        return f"Cell1 {key[0]} {gsty(key[1])} {cs}"
    if key[0] == "Random":
        return f"CellRandom {gsty(key[1])} {cs}"
    if key[0] == "RAdd":
        return f"CellRAdd {gsty(key[1])} {gz(key[2])} {cs}"
    return f"Cell2 {key[0]} {gsty(key[1])} {gsty(key[2])} {cs}"


def run_impl_table(ctx, tier):
    rc, out, err, dt = vlib.run([vlib.PY, os.path.join(vlib.VERIF, "tools", "impl_scalar.py"), tier],
                                timeout=1800, cwd="/", env=vlib.impl_env())
    if rc != 0:
        raise RuntimeError("impl_scalar.py failed: " + vlib.clean_noise(err)[-2000:])
    data = json.loads(out[out.index("{"):])
    ctx.note(f"impl table: {data['evaluations']} real evaluations, {len(data['cells'])} cells, "
             f"histogram {data['histogram']} ({dt:.1f}s)")
    return data


HEAD = """From Coq Require Import ZArith List String.
From NadaV.PyMini Require Import PyMini.
From NadaV.Model Require Import Rules Corr.
Import ListNotations.
Open Scope string_scope.
"""


def cells_text(cells):
    return "Definition cells : list cell :=\n  [" + ";\n   ".join(gcell(k, cs) for k, cs in cells) + "].\n"


def python_snippet(key, prov):
    return (f"# operator {key[0]} on types {key[1:]} with operand provenance {prov}: see tools/impl_scalar.py "
            f"(make / BINOPS); run `PYTHONPATH=<repo> /venv/bin/python tools/impl_scalar.py quick` and look up this cell")
