"""C09 — MIR tables hold exactly what the outputs need, each entry once and consistent."""
import vlib
import targeted
from props import mirprop as mp


def run(ctx):
    ok_x = vlib.step_extract(ctx)
    ok_p = vlib.step_prove(ctx) if ok_x else False
    n = 300 if ctx.tier == "quick" else 6000
    tg = targeted.all_families() + [targeted.many_literals_created_twice()]
    progs, results, bad = mp.run_programs(ctx, n, tg, {"C09": mp.on_mir("C09b")})
    ctx.note(f"validate: C09b evaluated in Coq on {sum(1 for r in results if 'ok' in r)} implementation MIRs: {len(bad['C09'])} violating")
    for i in bad["C09"]:
        vlib.report_failure(ctx, "C09/tables", "a MIR table is not exactly the reachable / referenced set (Spec/MirSpec.v C09b)",
                            mp.replay_payload(progs[i], results[i]))
    # a second compilation in one process that shares module-level literals with the first: the literal table of the second
    # MIR must hold exactly the literals that program needs (decided against the program: C09b + the literal part of faithfulb)
    mp.second_compilation_case(ctx, {"C09b": mp.on_mir("C09b"), "literals-needed": mp.on_case("faithfulb")},
                               lambda name, prog, res: ("C09/tables", "a MIR table is not exactly what the program's outputs need"))
    mp.may_reject_family(ctx, {"C09b": mp.on_mir("C09b"), "literals-needed": mp.on_case("faithfulb")},
                         lambda name, prog, res: ("C09/tables", "a MIR table is not exactly what the program's outputs need"),
                         mp.text_variant_programs(), "unusual-but-legal-spelling",
                         "outputs handed over as a generator / iterator / tuple, literals built from Python booleans", "text_variants")
    if ok_x:
        dis = mp.tie_model(ctx, progs, results)
        if dis is not None:
            ctx.note(f"tie: model vs implementation on {len(progs)} programs: {len(dis)} disagree")
            ctx.cov["model_impl_disagreements"] = len(dis)
            if dis:
                ctx.broken.append(dict(kind="correspondence", what="model and implementation disagree",
                                       detail=mp.surface.to_python(progs[dis[0]])))
    mp.standard_cov(ctx, progs, results, len(tg))
    return vlib.finish(ctx)
