"""C17 — the audit report reproduces the source and shows the inferred types."""
import collections
import json
import re

import vlib
from vlib import gstr, gz, glist
import audit_texts
from props import c16

DISPLAY_KINDS = ("Constant", "Name", "Call", "BinOp", "Compare", "BoolOp", "UnaryOp")


def cls(s):
    m = re.search(r'class="([^"]+)"', s)
    if m:
        return "types" if m.group(1).startswith("types") else m.group(1)
    return s.strip("<>")[:12]


def detail_of(left):
    m = re.search(r'data-detail="(.*)">$', left, re.S)
    return m.group(1) if m else None


def shown_problems(r):
    """what the checker inferred but the report does not show"""
    out = []
    facts = r.get("facts") or []
    # what the RENDERED report shows (an enrich call whose end lies before its start leaves nothing behind)
    details = collections.Counter(d for d in (detail_of(x) for x in (r.get("details") or [])) if d is not None)
    need = collections.Counter()
    for fact in facts:
        kind, line, col, rule, t, root = fact[:6]
        if rule is not None or t in (None, "inparent"):
            continue
        if kind in DISPLAY_KINDS:
            need[t] += (fact[6] if len(fact) > 6 else 1)
        elif root:
            # a direct-cause type error on a node kind without a display branch
            if details.get(t, 0) == 0:
                out.append(("undisplayed-type-error:" + kind, t))
    for t, n in need.items():
        if details.get(t, 0) < n:
            out.append(("missing-detail", t))
    nrestr = sum(1 for f in facts if f[3] == "restriction" and f[0] not in ("Load", "Store", "Del", "arguments", "Module")
                 and f[1] > 0)
    shown = sum(1 for c in r["calls"] if 'data-detail="SyntaxRestriction' in c[2])
    if shown < nrestr:
        out.append(("restriction-not-shown", f"{shown} < {nrestr}"))
    return out


def run(ctx):
    ok_x = vlib.step_extract(ctx)
    ok_p = vlib.step_prove(ctx) if ok_x else False
    ts = audit_texts.all_texts(ctx.seed, ctx.tier)
    rp = vlib.replay_case(ctx)
    if rp is not None and "source_text" in rp:
        ts = [(rp.get("name", "replay"), rp["source_text"])]
        ctx.note("replay: the source text of " + ctx.replay)
    res = c16.run_audit([t for _, t in ts])
    ok = [(i, r) for i, r in enumerate(res) if r["outcome"] == "ok"]
    hist = collections.Counter()
    for i, r in ok:
        name, text = ts[i]
        probs = []
        if not r["erased_equals_source"]:
            probs.append(("C17/erase", "removing the inserted markup does not give back the source"))
        if not r["balanced"]:
            a, b = sorted(cls(x) for x in r["crossing"])
            probs.append((f"C17/nesting:{a}/{b}", f"improperly nested markup: {r['crossing']}"))
        for kind, what in shown_problems(r):
            probs.append((f"C17/shown:{kind}", f"{kind}: {what}"))
        # lines that could not be parsed are marked, not dropped
        if r.get("lines") is not None and r["lines"] != len(text.strip().split("\n")):
            probs.append(("C17/lines", "the report has a different number of lines than the source"))
        for key, what in probs:
            hist[key] += 1
            vlib.report_failure(ctx, key, f"text `{name}`: {what}",
                                dict(case=dict(kind="source-text", name=name, source_text=text), observed=what,
                                     how_to_replay="PYTHONPATH=<repo> /venv/bin/python /verif/tools/impl_audit.py  (stdin: JSON list with this text)"))
    ctx.note(f"validate: {len(ok)} rendered reports: erasure, nesting, displayed details vs inferred attributes: {dict(hist)}")
    # ---- tie: the richreports model replays the logged enrich calls of a sample of texts; token-exact comparison in Coq
    if ok_x:
        sample = [(i, r) for i, r in ok if all(ord(ch) < 128 for ch in ts[i][1]) and len(r["calls"]) <= 120][: (40 if ctx.tier == "quick" else 400)]
        items = []
        for i, r in sample:
            src = ts[i][1].strip()
            calls = glist([f"{{| e_start := ({gz(c[0][0])}, {gz(c[0][1])}); e_end := ({gz(c[1][0])}, {gz(c[1][1])}); e_left := {gstr('L' + str(k))}; "
                           f"e_right := {gstr('R' + str(k))}; e_inter := {'true' if c[4] else 'false'}; e_skip := {'true' if c[5] else 'false'} |}}"
                           for k, c in enumerate(r["calls"])])
            toks = glist([gstr(t if t != "\n" else "NL") if len(t) > 1 or t == "\n" else gstr(t) for t in r["tokens"]])
            items.append(f"(join_nl {glist([gstr(l) for l in src.split(chr(10))])}, {calls}, {toks})")
        text = ("From Coq Require Import ZArith List String Ascii.\nFrom NadaV.Model Require Import RichReports.\nFrom NadaV.Proofs Require Import C17Proofs.\n"
                "Import ListNotations.\nOpen Scope string_scope.\n"
                "Definition nl1 : string := String (ascii_of_nat 10) EmptyString.\n"
                "Fixpoint join_nl (l : list string) : string := match l with [] => EmptyString | [x] => x | x :: r => x ++ nl1 ++ join_nl r end.\n"
                "Definition tok_str (t : token) : string := match t with TSrc c => String c \"\" | TNewline => \"NL\" | TMark s => s end.\n"
                "Fixpoint strs_eqb (a b : list string) : bool := match a, b with [], [] => true | x :: a', y :: b' => String.eqb x y && strs_eqb a' b' | _, _ => false end.\n"
                "Fixpoint bad {A} (f : A -> bool) (l : list A) (i : Z) : list Z := match l with [] => [] | x :: r => if f x then i :: bad f r (i + 1)%Z else bad f r (i + 1)%Z end.\n"
                "Definition cases : list (string * list ecall * list string) :=\n  [" + ";\n   ".join(items) + "].\n"
                "Eval vm_compute in (bad (fun c : string * list ecall * list string => let '(src, cs, toks) := c in "
                "match run_calls (mk_report src) cs with Done r => negb (strs_eqb (map tok_str (render r)) toks) | _ => true end) cases 0%Z).\n")
        # newline inside Coq strings: gstr maps control characters to '?', so sources are compared through tokens only
        rc, o, e, dt = vlib.eval_cases(ctx, "c17_model", text, 900)
        if rc != 0:
            ctx.broken.append(dict(kind="correspondence", what="richreports model evaluation failed", detail=(o + e)[-1000:]))
        else:
            mism = vlib.parse_zlist(vlib.parse_evals(o)[0])
            ctx.note(f"tie: richreports model replaying the logged enrich calls of {len(sample)} texts, token-exact: {len(mism)} disagree ({dt:.1f}s)")
            ctx.cov["model_impl_disagreements"] = len(mism)
            if mism:
                ctx.broken.append(dict(kind="correspondence", what="richreports model and library disagree", detail=ts[sample[mism[0]][0]][0]))
    ctx.cov.update(evaluations=len(ts), distinct_nontrivial=len(ok),
                   rule="the C16 source texts; for every text the auditor accepts: markup erased with private-use sentinels must give the "
                        "source byte for byte, delimiters must be balanced, displayed details must cover the inferred types / restrictions; "
                        "non-trivial = rendered reports",
                   samples=[dict(name=ts[i][0], marks=r.get("nmarks")) for i, r in ok[:3]],
                   traces_validated_against_impl=len(ok), problem_histogram=dict(hist))
    return vlib.finish(ctx)
