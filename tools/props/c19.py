"""C19 — source references designate the user line that created each MIR element."""
import json
import os
import shutil
import tempfile

import vlib
from vlib import gstr, gz, glist
import srcref_cases


def items_of(mir, tour):
    """list of (label, candidate lines, ref) for every MIR element; plus coverage problems"""
    exp = {}
    for kind, key, line in tour.expect:
        ls = line if isinstance(line, tuple) else (line,)
        exp.setdefault((kind, key), set()).update(ls)
    refs = mir["source_refs"]
    items, problems = [], []

    def ref(i):
        r = refs[i]
        return (r["file"], r["lineno"], r["offset"], r["length"])

    def cand(kind, key):
        return sorted(exp.get((kind, key), set()))
    for p in mir["parties"]:
        items.append((f"party {p['name']}", cand("party", p["name"]), ref(p["source_ref_index"])))
    for i in mir["inputs"]:
        items.append((f"input {i['name']}", cand("input", i["name"]), ref(i["source_ref_index"])))
    for o in mir["outputs"]:
        items.append((f"output {o['name']}", cand("output", o["name"]), ref(o["source_ref_index"])))
    lit_value = {l["name"]: l["value"] for l in mir["literals"]}
    seen_kind_lines = set()
    tables = [("program", mir["operations"])]
    for f in mir["functions"]:
        fl = cand("function", f["function"])
        items.append((f"function {f['function']}", fl, ref(f["source_ref_index"])))
        for a in f["args"]:
            items.append((f"argument {a['name']} of {f['function']}", fl, ref(a["source_ref_index"])))
        tables.append((f["function"], f["operations"]))
    fn_lines = {f["id"]: cand("function", f["function"]) for f in mir["functions"]}
    for tname, tab in tables:
        for key, op in tab.items():
            (kind, b), = op.items()
            r = ref(b["source_ref_index"])
            if kind == "InputReference":
                c = cand("input", b["refers_to"])
            elif kind == "LiteralReference":
                c = cand("literal", lit_value.get(b["refers_to"], "?"))
            elif kind == "NadaFunctionArgRef":
                c = fn_lines.get(b["function_id"], [])
            else:
                c = sorted(exp.get(("op", kind), set()) | exp.get(("op_at", kind), set()))
            items.append((f"{kind} #{key} in {tname}", c, r))
            seen_kind_lines.add((kind, r[1]))
            if kind == "LiteralReference":
                seen_kind_lines.add(("literal:" + lit_value.get(b["refers_to"], "?"), r[1]))
    for (kind, key), lines in exp.items():
        if kind == "literal" and len(lines) > 1:
            # one literal value written on several lines: every one of those lines has its own Literal operation
            for l in lines:
                if ("literal:" + key, l) not in seen_kind_lines:
                    problems.append(f"no Literal operation of value {key} is attributed to line {l}")
        if kind == "op":
            for l in lines:
                if (key, l) not in seen_kind_lines:
                    problems.append(f"no {key} operation is attributed to line {l}")
    return items, problems


def run(ctx):
    ok_x = vlib.step_extract(ctx)
    ok_p = vlib.step_prove(ctx) if ok_x else False
    cases = srcref_cases.all_cases()
    # the same tour with the package reached through a symbolic link (linked site-packages, editable installs)
    cases = cases + [("tour-package-through-link", "linked", c[2], c[3], c[4]) for c in cases if c[0] == "tour-lf"][:1]
    # ... and through an absolute but not normalised sys.path entry inserted at run time
    # (sys.path.insert(0, os.path.join(HERE, "..", "nada-dsl")))
    cases = cases + [("tour-package-through-unnormalised-path", "unnormalised", c[2], c[3], c[4]) for c in cases if c[0] == "tour-lf"][:1]
    # ... and the PROGRAM reached through a symbolic link whose name differs from its target's (current.py -> ../store/auction_v2.py)
    cases = cases + [("tour-program-through-a-link-of-another-name", "linked_progs", "current.py", c[3], c[4]) for c in cases if c[0] == "tour-lf"][:1]
    # ... and the program given by a RELATIVE path with a directory part (python -m nada_dsl.compile programs/main.py)
    cases = cases + [("tour-relative-path", "relprogs", "main.py", c[3], c[4]) for c in cases if c[0] == "tour-lf"][:1]
    d = tempfile.mkdtemp(prefix="nadaverif_c19_")
    os.symlink(vlib.REPO, os.path.join(d, "link_to_repo"))
    total_items, nviol = 0, 0
    samples = []
    try:
        for name, dname, fname, text, tour in cases:
            os.makedirs(os.path.join(d, dname), exist_ok=True)
            path = os.path.join(d, dname, fname)
            if name == "tour-program-through-a-link-of-another-name":
                os.makedirs(os.path.join(d, "store"), exist_ok=True)
                with open(os.path.join(d, "store", "auction_v2.py"), "w", encoding="utf-8", newline="") as f:
                    f.write(text)
                os.symlink(os.path.join("..", "store", "auction_v2.py"), path)
            else:
                with open(path, "w", encoding="utf-8", newline="") as f:
                    f.write(text)
            if name == "two-files":
                with open(os.path.join(d, dname, "c19_helper_module.py"), "w") as f:
                    f.write(srcref_cases.HELPER_MODULE)
            for rel, ftext in srcref_cases.EXTRA_FILES.get(name, {}).items():
                os.makedirs(os.path.dirname(os.path.join(d, dname, rel)), exist_ok=True)
                with open(os.path.join(d, dname, rel), "w") as f:
                    f.write(ftext)
            rc, out, err, dt = vlib.run([vlib.PY, os.path.join(vlib.VERIF, "tools", "run_one.py"),
                                         (os.path.join(dname, fname) if name == "tour-relative-path" else path), "--script"], 120,
                                        cwd=d, env=(dict(vlib.impl_env(), PYTHONPATH=os.path.join(d, "link_to_repo"))
                                                    if name == "tour-package-through-link" else
                                                    dict(vlib.impl_env(), PYTHONPATH="", VERIF_LIBPATH=os.path.join(vlib.REPO, "tests", ".."))
                                                    if name == "tour-package-through-unnormalised-path" else vlib.impl_env()))
            lines_ = [l for l in out.splitlines() if l.startswith("{")]
            if not lines_:
                raise RuntimeError(f"run_one failed on {name}: {vlib.clean_noise(err)[-500:]}")
            res = json.loads(lines_[-1])
            if "ok" not in res:
                raise RuntimeError(f"tour program {name} was rejected by the implementation: {res}")
            mir = res["ok"]
            items, problems = items_of(mir, tour)
            if name == "two-files":
                helper_lines = srcref_cases.HELPER_MODULE.splitlines()
                kept = []
                for lb, cs, r in items:
                    if r[0] == "c19_helper_module.py":
                        ok = (1 <= r[1] <= len(helper_lines) and r[3] == len(helper_lines[r[1] - 1])
                              and r[2] == sum(len(l) + 1 for l in helper_lines[:r[1] - 1]))
                        if not ok:
                            problems.append(f"{lb}: reference {r} does not delimit a line of the helper module")
                    else:
                        kept.append((lb, cs, r))
                items = kept
            if name in srcref_cases.EXPECT_SLICES:
                # operations created in helper files: the reference, read in the text the MIR embeds under that file name,
                # must delimit the creating line
                kept = []
                for lb, cs, r in items:
                    if r[0] != fname:
                        kind = lb.split(" ")[0]
                        want = srcref_cases.EXPECT_SLICES[name].get(kind)
                        got = (mir["source_files"].get(r[0]) or "")[r[2]:r[2] + r[3]]
                        if want is not None and got != want:
                            problems.append(f"{lb}: the reference into {r[0]} delimits {got!r}, the operation was created by {want!r}")
                    else:
                        kept.append((lb, cs, r))
                items = kept
            embedded = mir["source_files"].get(fname)
            if embedded is None:
                problems.append("the MIR embeds no source text for the program file")
                embedded = text
            # offsets are relative to the text embedded in the MIR (universal newlines: \r\n read as \n)
            eol = 1
            # a reference delimits the user's line: never a line terminator (a CR kept from a CRLF file, a newline)
            for lb, cs, r in items:
                if r[0] == fname:
                    sl = embedded[r[2]:r[2] + r[3]]
                    if "\r" in sl or "\n" in sl:
                        problems.append(f"{lb}: the referenced text {sl!r} contains a line terminator")
                        break
            glines = glist([gstr(l) for l in embedded.split("\n")])      # Python's lines: only \n (after universal-newline reading) ends a line
            gitems = glist([f"{{| ri_label := {gstr(lb)}; ri_candidates := {glist([gz(c) for c in cs])}; ri_file := {gstr(r[0])}; "
                            f"ri_line := {gz(r[1])}; ri_off := {gz(r[2])}; ri_len := {gz(r[3])} |}}" for lb, cs, r in items])
            cv = ("From Coq Require Import ZArith List String.\nFrom NadaV.Model Require Import SourceRef.\n"
                  "Import ListNotations.\nOpen Scope string_scope.\n"
                  f"Definition lines : list string := {glines}.\nDefinition items : list refitem := {gitems}.\n"
                  f"Eval vm_compute in (bad_items {eol} lines {gstr(fname)} items 0%Z).\n")
            rc, o, e, dt = vlib.eval_cases(ctx, "c19_" + name.replace("-", "_"), cv)
            if rc != 0:
                raise RuntimeError("cases c19 failed: " + (o + e)[-1500:])
            bad = vlib.parse_zlist(vlib.parse_evals(o)[0])
            total_items += len(items)
            ctx.note(f"validate [{name}]: {len(items)} MIR elements, {len(bad)} with a wrong source reference, {len(problems)} other problems")
            if len(samples) < 3:
                samples.append(dict(case=name, file=fname, element=items[0][0], expected_lines=items[0][1], reference=items[0][2]))
            if bad or problems:
                nviol += 1
                wrong = [dict(element=items[i][0], expected_lines=items[i][1], reference=items[i][2]) for i in bad[:12]]
                dsl = [w for w in wrong if w["reference"][0] != fname]
                if name == "tour-crlf" and all(w["reference"][0] == fname and w["reference"][1] in w["expected_lines"] for w in wrong) and not problems:
                    key = "C19/offset:crlf-line-endings"
                elif name == "two-helper-files-one-base-name":
                    key = "C19/files:two-files-with-one-base-name"
                elif name == "dir-named-like-the-package":
                    key = "C19/offset:path-contains-package-name"
                elif dsl:
                    key = "C19/frame:reference-into-dsl-file"
                elif name.startswith("tour-no-trailing") or name.startswith("edges"):
                    key = "C19/offset:last-line"
                else:
                    key = "C19/ref:" + name
                vlib.report_failure(ctx, key, f"{len(bad)} of {len(items)} elements of {name} carry a wrong source reference; {problems[:3]}",
                                    dict(case=dict(kind="file-program", name=name, directory=dname, file_name=fname, text=text),
                                         wrong=wrong, problems=problems,
                                         how_to_replay="write `text` to <dir>/<file_name>; cd / && PYTHONPATH=<repo> /venv/bin/python /verif/tools/run_one.py <path>; compare source_refs"))
    finally:
        shutil.rmtree(d, ignore_errors=True)
    ctx.cov.update(evaluations=total_items, distinct_nontrivial=total_items, programs=len(cases),
                   rule="file-compiled 'operator tour' programs (every operator kind once, one MIR element per line; operations on the "
                        "first and last line; no trailing newline; CRLF; implicit nada_fn through map/reduce; sum() and reflected add; "
                        "a directory whose name contains the package name): every party, input, output, function, argument and "
                        "operation reference is compared in Coq with the line that created it and with the slice of the embedded text",
                   samples=samples, traces_validated_against_impl=len(cases))
    return vlib.finish(ctx)
