"""C07 — tracing is oblivious."""
import collections
import json
import os

import vlib
from vlib import gstr, glist


def run(ctx):
    ok_x = vlib.step_extract(ctx)
    ok_p = vlib.step_prove(ctx) if ok_x else False
    rc, out, err, dt = vlib.run([vlib.PY, os.path.join(vlib.VERIF, "tools", "impl_coerce.py")], 600, cwd="/", env=vlib.impl_env())
    if rc != 0:
        raise RuntimeError("impl_coerce.py failed: " + vlib.clean_noise(err)[-1500:])
    data = json.loads(out[out.index("{"):])
    obs, pobs = data["cells"], data["pcells"]
    pgroups = collections.OrderedDict()
    for cls, route, construct, prov, pname, oc in pobs:
        pgroups.setdefault((cls, route, pname), []).append((construct, prov, oc))
    pcells = list(pgroups.items())
    gpcells = glist([f"({gstr(c)}, {r}, {gstr(pn)}, {glist(['true' if o.startswith('raises') else 'false' for _, _, o in v])})"
                     for (c, r, pn), v in pcells])
    groups = collections.OrderedDict()
    for cls, route, construct, prov, oc in obs:
        if oc.startswith("harness:"):
            raise RuntimeError(f"harness could not build {cls}/{prov}: {oc}")
        groups.setdefault((cls, route), []).append((construct, prov, oc))
    cells = list(groups.items())
    gcells = glist([f"({gstr(c)}, {r}, {glist(['true' if o.startswith('raises') else 'false' for _, _, o in v])})"
                    for (c, r), v in cells])
    head = ("From Coq Require Import ZArith List String.\nFrom NadaV.PyMini Require Import PyMini.\n"
            "From NadaV.Model Require Import Rules PyProtocol.\nImport ListNotations.\nOpen Scope string_scope.\n")
    text = head + (f"Definition cells : list cell := {gcells}.\nDefinition pcells : list pcell := {gpcells}.\n"
                   "Eval vm_compute in (coerce_violations cells).\nEval vm_compute in (pcoerce_violations pcells).\n")
    rc, o, e, dt = vlib.eval_cases(ctx, "c07_spec", text)
    if rc != 0:
        raise RuntimeError("cases c07_spec failed: " + (o + e)[-1500:])
    ev = vlib.parse_evals(o)
    viol = vlib.parse_zlist(ev[0])
    pviol = vlib.parse_zlist(ev[1])
    ctx.note(f"validate: {len(obs)} real coercion attempts in {len(cells)} (class, route) cells: {len(viol)} cells with a silent answer; "
             f"{len(pobs)} attempts against plain Python operands in {len(pcells)} cells: {len(pviol)} silent")
    for i in pviol:
        (cls, route, pname), v = pcells[i]
        silent = [x for x in v if not x[2].startswith("raises")]
        key = f"C07/silent:{'collection' if cls in ('Array', 'Tuple', 'NTuple', 'Object') else cls}-{route}-vs-plain"
        vlib.report_failure(ctx, key, f"{cls} values compared with the plain value {pname} silently answer on route {route}: {silent[:4]}",
                            dict(case=dict(kind="coercion-vs-plain", cls=cls, route=route, plain=pname, observations=silent),
                                 expected="an exception", how_to_replay="PYTHONPATH=<repo> /venv/bin/python /verif/tools/impl_coerce.py"))
    for i in viol:
        (cls, route), v = cells[i]
        silent = [x for x in v if not x[2].startswith("raises")]
        key = f"C07/silent:{'collection' if cls in ('Array', 'Tuple', 'NTuple', 'Object') else cls}-{route}"
        vlib.report_failure(ctx, key, f"{cls} values silently answer on route {route}: {silent[:4]}",
                            dict(case=dict(kind="coercion", cls=cls, route=route, observations=silent),
                                 expected="an exception", how_to_replay="PYTHONPATH=<repo> /venv/bin/python /verif/tools/impl_coerce.py"))
    if ok_x:
        text = head + "From NadaV.Gen Require Import GenClasses.\n" + \
            (f"Definition cells : list cell := {gcells}.\nDefinition pcells : list pcell := {gpcells}.\n"
             "Eval vm_compute in (coerce_mismatches G cells).\nEval vm_compute in (pcoerce_mismatches G pcells).\n")
        rc, o, e, dt = vlib.eval_cases(ctx, "c07_model", text)
        if rc != 0:
            ctx.broken.append(dict(kind="correspondence", what="model evaluation failed", detail=(o + e)[-1000:]))
        else:
            ev = vlib.parse_evals(o)
            mism = vlib.parse_zlist(ev[0])
            pmism = vlib.parse_zlist(ev[1])
            ctx.note(f"tie: protocol model over the generated class table vs implementation: {len(mism)} of {len(cells)} cells and "
                     f"{len(pmism)} of {len(pcells)} plain-operand cells disagree")
            ctx.cov["model_impl_disagreements"] = len(mism) + len(pmism)
            if pmism:
                ctx.broken.append(dict(kind="correspondence", what="protocol model and implementation disagree on plain-operand cells",
                                       detail=json.dumps([[pcells[i][0], pcells[i][1][:3]] for i in pmism[:5]])))
            if mism:
                ctx.broken.append(dict(kind="correspondence", what="protocol model and implementation disagree",
                                       detail=json.dumps([[cells[i][0], cells[i][1][:3]] for i in mism[:5]])))
    ctx.cov.update(evaluations=len(obs) + len(pobs), distinct_nontrivial=len(cells) + len(pcells), exhaustive=True,
                   rule="every (non-literal scalar class | collection class) x 34 Python constructs over 5 routes (truth, chained "
                        "comparison, min/max/sorted, membership by equality or by hashing, iteration) x provenances (input, operation result, "
                        "function parameter, n-tuple element, object field) on real objects; distinct = (class, route) cells",
                   samples=[dict(cls=c, route=r, observations=v[:3]) for (c, r), v in cells[:3]],
                   traces_validated_against_impl=len(cells))
    return vlib.finish(ctx)
