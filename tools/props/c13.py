"""C13 — compilation is deterministic and the same through every entry point."""
import base64
import concurrent.futures
import itertools
import json
import os
import random
import shutil
import tempfile

import vlib
import surface
import progrun
import targeted
from vlib import gstr, glist

API_SCRIPT = ("import sys, json\nfrom nada_dsl.compile import compile_script\n"
              "try:\n    print('OK ' + compile_script(sys.argv[1]).mir)\n"
              "except Exception as e:\n    print('EXC ' + type(e).__name__)\n")
API_STRING = ("import sys, json\nfrom nada_dsl.compile import compile_string\n"
              "try:\n    print('OK ' + compile_string(sys.argv[1]).mir)\n"
              "except Exception as e:\n    print('EXC ' + type(e).__name__)\n")

FAILING = {
    "missing-entry-point": "from nada_dsl import *\n\ndef main():\n    return []\n",
    "raises-at-import": "from nada_dsl import *\nraise ValueError('boom at import')\n",
    "raises-while-tracing": ("from nada_dsl import *\n\ndef nada_main():\n    p = Party(name='P0')\n"
                             "    a = SecretInteger(Input(name='a', party=p))\n    b = SecretBoolean(Input(name='b', party=p))\n"
                             "    return [Output(a + b, 'o', p)]\n"),
    "invalid-return-value": "from nada_dsl import *\n\ndef nada_main():\n    return 5\n",
    "output-of-non-nada": "from nada_dsl import *\n\ndef nada_main():\n    p = Party(name='P0')\n    return [Output(5, 'o', p)]\n",
    "key-error": "from nada_dsl import *\n\ndef nada_main():\n    return {}['x']\n",
    # exceptions raised without arguments, with a non-string argument, with text that needs escaping
    "branch-on-secret": ("from nada_dsl import *\n\ndef nada_main():\n    p = Party(name='P0')\n    a = SecretInteger(Input(name='a', party=p))\n"
                         "    b = SecretInteger(Input(name='b', party=p))\n    if a > b:\n        return [Output(a, 'o', p)]\n    return [Output(b, 'o', p)]\n"),
    "bare-assert": "from nada_dsl import *\n\ndef nada_main():\n    assert 1 == 2\n    return []\n",
    "raise-without-arguments": "from nada_dsl import *\n\ndef nada_main():\n    raise ValueError\n",
    "raise-with-tuple-argument": "from nada_dsl import *\n\ndef nada_main():\n    raise RuntimeError(('a', 1), {'k': 2})\n",
    "raise-with-quotes-and-newline": "from nada_dsl import *\n\ndef nada_main():\n    raise ValueError('line \"one\"\\nline two \\u2713')\n",
    "system-exit-zero": "from nada_dsl import *\nimport sys\n\ndef nada_main():\n    raise ZeroDivisionError()\n",
}
# functions built inside a function body, inner and outer with the same __name__ (timers are named after things)
NESTED_SAME_NAME = ("from typing import List\nfrom nada_dsl import *\n\n\ndef nada_main():\n    p = Party(name='P0')\n"
                    "    rows = Array(Array(SecretInteger(Input(name='m', party=p)), size=2), size=3)\n"
                    "    zero = SecretInteger(Input(name='z', party=p))\n\n"
                    "    def fn(row: Array[SecretInteger]) -> SecretInteger:\n"
                    "        def fn(acc: SecretInteger, x: SecretInteger) -> SecretInteger:\n            return acc + x\n"
                    "        return row.reduce(fn, zero)\n    out = rows.map(fn)\n"
                    "    outs: List[Output] = [Output(out, 'o', p)]\n    return outs\n")
# a very deep expression (a few thousand operations chained through one accumulator): nothing in the compiler may depend
# on the interpreter's recursion limit
DEEP = ("from typing import List\nfrom nada_dsl import *\n\n\ndef nada_main():\n    p = Party(name='P0')\n"
        "    xs = [SecretInteger(Input(name='x' + str(i), party=p)) for i in range(8)]\n    acc = xs[0]\n"
        "    for i in range(3000):\n        acc = acc + xs[i % 8] if i % 3 else acc * xs[i % 8]\n"
        "    outs: List[Output] = [Output(acc, 'o', p)]\n    return outs\n")
# non-ASCII characters in comments, doc strings and names of inputs: the CLI must print its one JSON object whatever the
# encoding of its standard output
NON_ASCII = ("from typing import List\nfrom nada_dsl import *\n\n\n# \u2192 \u5408\u8a08 \u2014 \u03b1\ndef nada_main():\n    p = Party(name='P0')\n"
             "    a = SecretInteger(Input(name='a', party=p, doc='montant \u2192 \u5408\u8a08 \u2014 \u03b1'))\n"
             "    b = SecretInteger(Input(name='b', party=p, doc='caf\u00e9'))\n"
             "    outs: List[Output] = [Output(a * b, 'o', p)]\n    return outs\n")
# a file saved with a byte order mark; a file in another encoding declared by a coding cookie (files only)
BOM = "\ufeff" + NON_ASCII
COOKIE = ("# -*- coding: latin-1 -*-\nfrom typing import List\nfrom nada_dsl import *\n\n\n# caf\u00e9 cr\u00e8me\ndef nada_main():\n    p = Party(name='P0')\n"
          "    a = SecretInteger(Input(name='a', party=p, doc='caf\u00e9'))\n    b = SecretInteger(Input(name='b', party=p))\n"
          "    outs: List[Output] = [Output(a - b, 'o', p)]\n    return outs\n")
FILE_ONLY = ("multi-file", "coding-cookie")
HEAVY = ("deep-expression", "non-ascii", "byte-order-mark", "coding-cookie")
NAMES = ["prog.py", "my-prog.py", "my.prog.py", "json.py", "os.py", "typing.py", "nada_dsl.py", "base64.py", "temp_program.py",
         "traceback.py", "nada_dsl_prog.py", "inspect.py"]

# a program spread over several files: helper modules in the program's own directory
HELPERS = {
    "helpers_a.py": ("from nada_dsl import *\n\ndef make_a(p):\n    x = SecretInteger(Input(name='ax', party=p))\n"
                     "    y = SecretInteger(Input(name='ay', party=p))\n    return x * y\n"),
    "helpers_b.py": ("from nada_dsl import *\n\ndef make_b(p, v):\n    z = PublicInteger(Input(name='bz', party=p))\n    return v + z\n"),
    "helpers_c.py": ("from nada_dsl import *\n\ndef make_c(v, w):\n    return (v < w).if_else(v, w)\n"),
    "zz_helpers.py": ("from nada_dsl import *\n\ndef make_z(v):\n    return v - Integer(3)\n"),
}
MULTI = ("from typing import List\nfrom nada_dsl import *\nfrom helpers_a import make_a\nfrom helpers_b import make_b\n"
         "from helpers_c import make_c\nfrom zz_helpers import make_z\n\n\ndef nada_main():\n    p = Party(name='P0')\n"
         "    a = make_a(p)\n    b = make_b(p, a)\n    c = make_c(a, b)\n    d = make_z(c)\n"
         "    outs: List[Output] = [Output(d, 'o', p)]\n    return outs\n")


def strip_loc(m):
    """MIR without source-location details"""
    def walk(x):
        if isinstance(x, dict):
            return {k: walk(v) for k, v in x.items() if k not in ("source_ref_index",)}
        if isinstance(x, list):
            return [walk(v) for v in x]
        return x
    return walk({k: v for k, v in m.items() if k not in ("source_files", "source_refs")})


def run(ctx):
    ok_x = vlib.step_extract(ctx)
    ok_p = vlib.step_prove(ctx) if ok_x else False
    rng = random.Random(ctx.seed)
    quick = ctx.tier == "quick"
    pool = targeted.all_families() + progrun.generate(ctx.seed, 30 if quick else 200, sizes=(3, 14))
    fresh = progrun.run_impl(pool)
    good = [surface.to_python(p) for p, r in zip(pool, fresh) if "ok" in r]
    texts = {f"accepted-{i}": t for i, t in enumerate(good[:(5 if quick else 40)])}
    texts = {k: (v if "from typing" in v else v.replace("from nada_dsl import *", "from typing import List\nfrom nada_dsl import *", 1))
             for k, v in texts.items()}
    texts.update(FAILING)
    texts["multi-file"] = MULTI
    texts["nested-functions-same-name"] = NESTED_SAME_NAME
    texts["deep-expression"] = DEEP
    texts["non-ascii"] = NON_ASCII
    texts["byte-order-mark"] = BOM
    texts["coding-cookie"] = COOKIE
    # entry points that are callable without arguments but declare parameters (twelfth seeding round)
    texts["accepted-main-with-a-default-argument"] = ("from nada_dsl import *\n\n\ndef nada_main(scale=3):\n    p = Party(name='P0')\n    a = SecretInteger(Input(name='a', party=p))\n"
                                                      "    return [Output(a * Integer(scale), 'o', p)]\n")
    texts["accepted-output-names-with-blanks-and-punctuation"] = ("from nada_dsl import *\n\n\ndef nada_main():\n    p = Party(name='P 0')\n    a = SecretInteger(Input(name='a', party=p))\n"
                                                                  "    b = SecretInteger(Input(name='b', party=p))\n"
                                                                  "    return [Output(a + b, 'total sum', p), Output(a * b, 'a:b', p), Output(a - b, 'x/y', p), Output(a, '\u00fcn\u00ef', p), Output(b, 'dotted.name', p)]\n")
    texts["accepted-main-with-star-arguments"] = ("from nada_dsl import *\n\n\ndef nada_main(*unused, **also_unused):\n    p = Party(name='P0')\n    a = SecretInteger(Input(name='a', party=p))\n"
                                                  "    b = SecretInteger(Input(name='b', party=p))\n    return [Output(a + b, 'o', p)]\n")
    seeds = ["0", "1", "12345"] if quick else ["0", "1", "2", "12345", "random"]
    names = NAMES[:7] if quick else NAMES
    seeds = seeds + (["7", "99"] if quick else ["7", "99", "31337"])
    d = tempfile.mkdtemp(prefix="nadaverif_c13_")
    jobs = []
    try:
        os.makedirs(os.path.join(d, "cwd"), exist_ok=True)
        open(os.path.join(d, "api_script.py"), "w").write(API_SCRIPT)
        open(os.path.join(d, "api_string.py"), "w").write(API_STRING)
        for pn, text in texts.items():
            b64 = base64.b64encode(text.encode()).decode()
            for name in (names[:1] if pn in HEAVY else names):
                pd = os.path.join(d, pn, name.replace(".", "_"))
                os.makedirs(pd, exist_ok=True)
                path = os.path.join(pd, name)
                open(path, "w", encoding=("latin-1" if pn == "coding-cookie" else "utf-8")).write(text)
                if pn == "multi-file":
                    for hn, ht in HELPERS.items():
                        open(os.path.join(pd, hn), "w").write(ht)
                for seed in (seeds[:2] if pn in HEAVY else seeds):
                    for tm in ("", "1"):
                        if quick and tm == "1" and name not in ("prog.py", "json.py"):
                            continue
                        jobs.append((pn, "cli-path", name, seed, tm, ["-m", "nada_dsl.compile", path]))
                        jobs.append((pn, "api-script", name, seed, tm, [os.path.join(d, "api_script.py"), path]))
                        if pn == "non-ascii":
                            for enc in ("ascii", "cp1252", "latin-1"):
                                jobs.append((pn, "cli-path@" + enc, name, seed, tm, ["-m", "nada_dsl.compile", path]))
            if pn in FILE_ONLY:
                continue          # helper modules cannot be found from a base64 string; a string has no encoding declaration
            for seed in (seeds[:2] if pn in HEAVY else seeds):
                for tm in ("", "1"):
                    jobs.append((pn, "cli-s", "-", seed, tm, ["-m", "nada_dsl.compile", "-s", b64]))
                    jobs.append((pn, "api-string", "-", seed, tm, [os.path.join(d, "api_string.py"), b64]))
                    if pn == "non-ascii":
                        for enc in ("ascii", "cp1252"):
                            jobs.append((pn, "cli-s@" + enc, "-", seed, tm, ["-m", "nada_dsl.compile", "-s", b64]))
            # base64 as the `base64` tool, base64.encodebytes and MIME write it: lines of 76 characters
            mime = base64.encodebytes(text.encode()).decode()
            jobs.append((pn, "cli-s+mime", "-", seeds[0], "", ["-m", "nada_dsl.compile", "-s", mime]))
            jobs.append((pn, "api-string+mime", "-", seeds[0], "", [os.path.join(d, "api_string.py"), mime]))
            jobs.append((pn, "cli-s+timers-file-blocked", "-", seeds[0], "", ["-m", "nada_dsl.compile", "-s", b64]))

        def one(job):
            pn, entry, name, seed, tm, args = job
            env = vlib.impl_env({"PYTHONHASHSEED": seed})
            if tm:
                env["NADA_TIMER"] = "1"
            if "@" in entry:
                env["PYTHONIOENCODING"] = entry.split("@")[1]     # the encoding of the child's standard output
            cwd = tempfile.mkdtemp(prefix="cwd_", dir=os.path.join(d, "cwd"))
            if entry.endswith("+timers-file-blocked"):
                # timers on in a directory where the timers report cannot be written: still exactly one JSON object
                env["NADA_TIMER"] = "1"
                os.makedirs(os.path.join(cwd, "nada-timers.json"))
            rc, out, err, dt = vlib.run([vlib.PY] + args, 120, cwd=cwd, env=env)
            return out
        with concurrent.futures.ThreadPoolExecutor(max_workers=vlib.NCPU) as ex:
            outs = list(ex.map(one, jobs))
    finally:
        shutil.rmtree(d, ignore_errors=True)
    # ---- analysis
    nviol = 0
    by = {}
    for job, out in zip(jobs, outs):
        by[job[:5]] = out
    # reference outcome of each program: the base64-string API in a fresh process
    ref = {}
    for pn in texts:
        o = by[(pn, "api-string", "-", seeds[0], "")] if pn not in FILE_ONLY else by[(pn, "api-script", names[0], seeds[0], "")]
        ref[pn] = ("ok", strip_loc(json.loads(o.strip()[3:]))) if o.startswith("OK ") else ("exc", o.strip())
    cli_cells = []
    problems = []
    # programs whose nada_main returns its outputs normally: the reference itself must be a MIR
    for pn in texts:
        if (pn.startswith("accepted-") or pn in ("multi-file", "nested-functions-same-name", "deep-expression", "non-ascii", "byte-order-mark", "coding-cookie")) and ref[pn][0] != "ok":
            problems.append(((pn, "api-string" if pn not in FILE_ONLY else "api-script", "-", seeds[0], ""),
                             f"a program whose nada_main returns outputs normally is not compiled: {ref[pn][1][:160]}"))
    for (pn, entry, name, seed, tm), out in by.items():
        kind, val = ref[pn]
        lines = [l for l in out.splitlines() if l.strip()]
        if entry.startswith("cli"):
            parsed = []
            for l in lines:
                try:
                    parsed.append(json.loads(l))
                except Exception:   # noqa
                    parsed.append(None)
            kinds = ["LSuccess" if (p and p.get("result") == "Success") else "LFailure" if (p and p.get("result") == "Failure" and "reason" in p) else "?"
                     for p in parsed]
            argv = ["compile.py", "PATH"] if entry.startswith("cli-path") else ["compile.py", "-s", "B64"]
            cli_cells.append((argv, kind, kinds, (pn, entry, name, seed, tm)))
            mir = None
            if kinds == ["LSuccess"]:
                try:
                    mir = strip_loc(json.loads(parsed[0]["mir"]))
                except Exception:   # noqa
                    problems.append(((pn, entry, name, seed, tm), "Success without a parseable MIR"))
            if kind == "ok" and mir != val:
                problems.append(((pn, entry, name, seed, tm), f"expected the reference MIR, got {kinds} {(parsed[0] or {}).get('reason', '')[:120] if parsed else ''}"))
            if kind == "exc" and kinds != ["LFailure"]:
                problems.append(((pn, entry, name, seed, tm), f"expected one Failure object, got {kinds}"))
        else:
            if kind == "ok":
                if not out.startswith("OK ") or strip_loc(json.loads(out.strip()[3:])) != val:
                    problems.append(((pn, entry, name, seed, tm), f"expected the reference MIR, got {out.strip()[:120]}"))
            elif not out.startswith("EXC "):
                problems.append(((pn, entry, name, seed, tm), f"expected an exception, got {out.strip()[:80]}"))
    # byte-identity across hash seeds
    for (pn, entry, name, seed, tm), out in by.items():
        base = by[(pn, entry, name, seeds[0], tm)]
        if out != base and '"traceback"' not in out:
            problems.append(((pn, entry, name, seed, tm), "stdout differs from the run with PYTHONHASHSEED=" + seeds[0]))
    ctx.note(f"matrix: {len(texts)} programs x entry points x file names x hash seeds x timers = {len(jobs)} fresh processes; "
             f"{len(problems)} cells deviate")
    for cell, why in problems[:60]:
        pn, entry, name, seed, tm = cell
        if entry in ("cli-path", "api-script") and name in ("json.py", "os.py", "base64.py", "traceback.py", "my.prog.py", "temp_program.py"):
            key = "C13/module-resolution:" + ("dotted-name" if name == "my.prog.py" else "name-of-loaded-module")
        else:
            key = f"C13/{entry}:{pn}"
        vlib.report_failure(ctx, key, f"{entry} {name} seed={seed} timers={tm or 'off'} program={pn}: {why}",
                            dict(case=dict(kind="entry-point", program=pn, python_source=texts[pn], entry_point=entry, file_name=name,
                                           env={"PYTHONHASHSEED": seed, "NADA_TIMER": tm}),
                                 how_to_replay="write python_source to <file_name>; cd <empty dir> && PYTHONPATH=<repo> PYTHONHASHSEED=<seed> "
                                               "/venv/bin/python -m nada_dsl.compile <path>   (or -s <base64>)"))
    # ---- the CLI decision tree: model (Model/Cli.v) vs observed prints, in Coq
    if ok_x:
        g = glist([f"({glist([gstr(a) for a in argv])}, {'Compiled' if kind == 'ok' else 'RaisedException'}, "
                   f"{glist([k if k != '?' else 'LFailure' for k in kinds])}, {'true' if '?' in kinds else 'false'})"
                   for argv, kind, kinds, _ in cli_cells])
        text = ("From Coq Require Import ZArith List String Bool.\nFrom NadaV.Model Require Import Cli.\nImport ListNotations.\nOpen Scope string_scope.\n"
                "Definition line_eqb (a b : line) : bool := match a, b with LSuccess, LSuccess | LFailure, LFailure => true | _, _ => false end.\n"
                "Fixpoint lines_eqb (a b : list line) : bool := match a, b with [], [] => true | x :: a', y :: b' => line_eqb x y && lines_eqb a' b' | _, _ => false end.\n"
                "Fixpoint bad {A} (f : A -> bool) (l : list A) (i : Z) : list Z := match l with [] => [] | x :: r => if f x then i :: bad f r (i + 1)%Z else bad f r (i + 1)%Z end.\n"
                f"Definition cells : list (list string * ended * list line * bool) := {g}.\n"
                "Eval vm_compute in (bad (fun c : list string * ended * list line * bool => let '(argv, e, obs, junk) := c in "
                "junk || negb (lines_eqb (cli argv e e) obs)) cells 0%Z).\n")
        rc, o, e, dt = vlib.eval_cases(ctx, "c13_cli", text)
        if rc != 0:
            raise RuntimeError("cases c13_cli failed: " + (o + e)[-1200:])
        mism = vlib.parse_zlist(vlib.parse_evals(o)[0])
        ctx.note(f"tie: CLI model vs {len(cli_cells)} real command-line runs: {len(mism)} disagree")
        ctx.cov["model_impl_disagreements"] = len(mism)
        unexplained = [i for i in mism if not any(c == cli_cells[i][3] for c, _ in problems)]
        if unexplained:
            ctx.broken.append(dict(kind="correspondence", what="CLI model and implementation disagree", detail=str(cli_cells[unexplained[0]][3])))
    ctx.cov.update(evaluations=len(jobs), distinct_nontrivial=len({(j[0], j[1], j[2]) for j in jobs}),
                   rule="programs (accepted; missing nada_main; raising at import / while tracing; invalid return value; KeyError) x entry points "
                        "{compile_script, compile_string, python -m nada_dsl.compile <path>, -s <b64>} x file names (plain, dash, dots, names of "
                        "loaded / standard-library modules) x PYTHONHASHSEED x NADA_TIMER, each in a fresh process from an empty cwd; "
                        "distinct = (program, entry point, file name)",
                   samples=[dict(program=j[0], entry=j[1], name=j[2], seed=j[3], timers=j[4]) for j in jobs[:3]],
                   traces_validated_against_impl=len(jobs))
    return vlib.finish(ctx)
