"""C11 — nada functions keep their signature, their bindings and their restrictions."""
from props import mirprop as mp


def classify(name, prog, res):
    if name == "must-reject":
        return "C11/accepts:" + ",".join(prog.get("tags") or []), "a function with a literal return type or only literal parameters was accepted"
    if name == "faithfulb":
        if mp.has_kwargs(prog["stmts"]):
            return "C11/drop:keyword-arguments", "a keyword argument of a nada function call is missing from the emitted call"
        if mp.has_literal_param(prog["stmts"]):
            return "C11/fold:literal-typed-params", "see C04/fold:literal-typed-params"
        return "C11/binding", "a map / reduce / call is not bound to the function and arguments the program wrote"
    if mp.captures_enclosing_param(prog["stmts"]):
        return "C11/scope:param-of-enclosing-fn", "see C01/scope:param-of-enclosing-fn"
    return "C11/signature", "a function of the MIR does not have the signature of its definition (Spec/ProgSpec.v functionsb)"


def run(ctx):
    return mp.generic_run(ctx, {"functionsb": mp.on_case("functionsb"), "faithfulb": mp.on_case("faithfulb"),
                                "must-reject": mp.on_prog_outcome("c11_must_reject")}, classify, level='proof')
