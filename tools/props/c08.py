"""C08 — a compilation is independent of earlier traces and failures in the process."""
import concurrent.futures
import json
import os
import random
import shutil
import tempfile

import vlib
import surface
import progrun
import mirprint
import targeted
from props import mirprop as mp


def abort_text(prog, k):
    """python text of prog whose nada_main raises after k top-level statements"""
    cut = dict(prog, stmts=prog["stmts"][:k])
    txt = surface.to_python(cut)
    lines = txt.rstrip("\n").split("\n")
    lines[-1] = "    raise RuntimeError('aborted by the history harness')"
    return "\n".join(lines) + "\n"


def dup_input_prog(prog):
    """a program whose compilation raises: two different inputs under one name, both output"""
    st = list(prog["stmts"])
    st.append(targeted.inp("dupa", "dup_name", targeted.SI))
    st.append(targeted.inp("dupb", "dup_name", targeted.SI))
    return dict(prog, stmts=st, outs=list(prog["outs"]) + [("d1", "P0", "dupa"), ("d2", "P0", "dupb")])


def run(ctx):
    ok_x = vlib.step_extract(ctx)
    ok_p = vlib.step_prove(ctx) if ok_x else False
    rng = random.Random(ctx.seed)
    nprog = 120 if ctx.tier == "quick" else 1200
    nhist = 100 if ctx.tier == "quick" else 1500
    ntargeted = len(targeted.all_families())
    cands = targeted.all_families() + progrun.generate(ctx.seed, nprog, sizes=(3, 14))
    fresh = progrun.run_impl(cands)
    good = [i for i, r in enumerate(fresh) if "ok" in r]
    ctx.note(f"pool: {len(cands)} programs, {len(good)} accepted when compiled alone in a fresh process")
    hists = []
    for h in range(nhist):
        steps = []
        for _ in range(rng.choice([1, 1, 2, 3, 4])):
            i = rng.choice(good)
            kind = rng.choice(["complete", "complete", "abort", "dup"])
            if kind == "abort":
                k = rng.randrange(0, len(cands[i]["stmts"]) + 1)
                steps.append(("abort", i, k))
            else:
                steps.append((kind, i, None))
        probe = rng.choice(good)
        if h % 5 == 0:
            # the same traced outputs compiled twice; prefer the targeted families (functions with literals / inputs in their body)
            tg = [i for i in good if i < ntargeted]
            probe = tg[(h // 5) % len(tg)]
        hists.append((steps, probe, "twice" if h % 5 == 0 else False))
    # the same probe twice, with and without timers
    hists.append(([("complete", good[0], None)], good[0], False))
    hists.append(([("complete", good[0], None)], good[0], True))
    d = tempfile.mkdtemp(prefix="nadaverif_c08_")
    try:
        def one(hi):
            steps, probe, timers = hists[hi]
            paths = []
            for si, (kind, i, k) in enumerate(steps):
                path = os.path.join(d, f"h{hi}_s{si}.py")
                if kind == "complete":
                    txt = surface.to_python(cands[i])
                elif kind == "abort":
                    txt = abort_text(cands[i], k)
                else:
                    txt = surface.to_python(dup_input_prog(cands[i]))
                open(path, "w").write(txt)
                paths.append(path)
            pp = os.path.join(d, f"h{hi}_probe.py")
            open(pp, "w").write(surface.to_python(cands[probe]))
            sp = os.path.join(d, f"h{hi}.json")
            json.dump({"steps": paths, "probe": pp, "timers": timers is True, "probe_twice": timers == "twice"}, open(sp, "w"))
            rc, out, err, dt = vlib.run([vlib.PY, os.path.join(vlib.VERIF, "tools", "run_history.py"), sp], 180, cwd=d,
                                        env=vlib.impl_env())
            ls = [l for l in out.splitlines() if l.startswith("{")]
            if not ls:
                return {"exc": "HarnessFailure", "msg": vlib.clean_noise(err)[-300:]}
            return json.loads(ls[-1])
        with concurrent.futures.ThreadPoolExecutor(max_workers=vlib.NCPU) as ex:
            after = list(ex.map(one, range(len(hists))))
    finally:
        shutil.rmtree(d, ignore_errors=True)
    if any(r.get("exc") == "HarnessFailure" for r in after):
        raise RuntimeError("history harness failed: " + str([r for r in after if r.get("exc") == "HarnessFailure"][0]))
    # ---- validate: probe after history == probe compiled alone, up to renaming (Spec/Equiv.v), evaluated in Coq
    def g_steps(steps):
        items = []
        for kind, i, k in steps:
            if kind == "abort":
                items.append(f"(HAbortTrace {vlib.glist([surface.g_stmt(s) for s in cands[i]['stmts'][:k]])})")
            elif kind == "dup":
                items.append(f"(HComplete {surface.to_gallina(dup_input_prog(cands[i]))})")
            else:
                items.append(f"(HComplete {surface.to_gallina(cands[i])})")
        return vlib.glist(items)
    head = progrun.HEAD + "From NadaV.Spec Require Import MirSpec Equiv.\n"
    per = 12
    shards = []
    for s in range(0, len(hists), per):
        items = []
        for hi in range(s, min(len(hists), s + per)):
            steps, probe, timers = hists[hi]
            items.append(f"({g_steps(steps)}, {surface.to_gallina(cands[probe])}, {mirprint.g_ioutcome(after[hi])}, "
                         f"{mirprint.g_ioutcome(fresh[probe])})")
        shards.append((s, items))

    def eval_shard(args):
        s, items = args
        text = head + "Definition cases : list (list hstep * program * ioutcome * ioutcome) :=\n  [" + ";\n   ".join(items) + "].\n"
        text += ("Eval vm_compute in (indices_where (fun c : list hstep * program * ioutcome * ioutcome => "
                 "let '(h, p, a, f) := c in match a, f with IOk ma, IOk mf => negb (mir_equivb ma mf) | _, _ => true end) cases 0%Z).\n")
        rc, o, e, dt = vlib.eval_cases(ctx, f"c08_spec_{s}", text, 900)
        if rc != 0:
            raise RuntimeError("cases c08_spec failed: " + (o + e)[-1200:])
        bad = [s + i for i in vlib.parse_zlist(vlib.parse_evals(o)[0])]
        dis = None
        if ok_x:
            cleared = "(smem \"FUNCTIONS\" GenFrontend.cleared)"
            text2 = head + "From NadaV.Gen Require GenScalar GenFrontend.\n" + \
                "Definition cases : list (list hstep * program * ioutcome * ioutcome) :=\n  [" + ";\n   ".join(items) + "].\n" + \
                ("Eval vm_compute in (indices_where (fun c : list hstep * program * ioutcome * ioutcome => "
                 f"let '(h, p, a, f) := c in negb (outcome_agrees (run_after GenScalar.G {cleared} h p) a)) cases 0%Z).\n")
            rc, o, e, dt = vlib.eval_cases(ctx, f"c08_model_{s}", text2, 900)
            if rc != 0:
                raise RuntimeError("cases c08_model failed: " + (o + e)[-1200:])
            dis = [s + i for i in vlib.parse_zlist(vlib.parse_evals(o)[0])]
        return bad, dis
    bad, dis = [], []
    with concurrent.futures.ThreadPoolExecutor(max_workers=vlib.NCPU) as ex:
        for b, d2 in ex.map(eval_shard, shards):
            bad += b
            if d2 is not None:
                dis += d2
    ctx.note(f"validate: {len(hists)} histories (1-4 earlier programs: complete / aborted mid-trace / aborted while compiling) run in one "
             f"process each; probe MIR vs fresh-process MIR up to renaming (Coq, Spec/Equiv.v): {len(bad)} differ")
    for hi in sorted(bad)[:40]:
        steps, probe, timers = hists[hi]
        a = after[hi]
        if timers is True and a.get("exc") == "TimerError":
            key = "C08/timers:second-compile-raises"
        elif "ok" in a and len(a["ok"]["functions"]) > len(fresh[probe]["ok"]["functions"]):
            key = "C08/stale:functions-of-earlier-programs"
        else:
            key = "C08/history"
        vlib.report_failure(ctx, key, f"the probe compiled after this history differs from the probe compiled alone ({a.get('exc', 'different MIR')})",
                            dict(case=dict(kind="history", timers=(timers is True), probe_compiled_twice=(timers == "twice"),
                                           steps=[dict(kind=k, python_source=(abort_text(cands[i], kk) if k == "abort" else
                                                       surface.to_python(dup_input_prog(cands[i]) if k == "dup" else cands[i])))
                                                  for k, i, kk in steps],
                                           probe=surface.to_python(cands[probe])),
                                 observed=(a if "ok" not in a else {k: a["ok"][k] for k in ("functions", "inputs", "parties", "literals", "outputs")}),
                                 how_to_replay="write the step programs and the probe to files; tools/run_history.py <spec.json> in one process"))
    if ok_x:
        ctx.note(f"tie: model run_after (state carried across programs) vs implementation on {len(hists)} histories: {len(dis)} disagree")
        ctx.cov["model_impl_disagreements"] = len(dis)
        real = [hi for hi in dis if hists[hi][2] is not True]
        if real:
            ctx.broken.append(dict(kind="correspondence", what="history model and implementation disagree",
                                   detail=json.dumps([hists[hi][0] for hi in real[:3]])))
    kinds = {}
    for steps, _, _ in hists:
        for k, _, _ in steps:
            kinds[k] = kinds.get(k, 0) + 1
    ctx.cov.update(evaluations=len(hists), distinct_nontrivial=len({json.dumps([s, p]) for s, p, _ in hists if len(s) >= 1}),
                   rule="histories of 1-4 earlier programs (complete, aborted by an exception after k top-level DSL statements, or aborted "
                        "during compilation by a duplicate input) followed by a probe, each history in one real process; distinct = "
                        "distinct (steps, probe); non-trivial = at least one earlier program",
                   samples=[dict(steps=[(k, i, kk) for k, i, kk in hists[j][0]], probe=hists[j][1]) for j in (0, 1, 2)],
                   traces_validated_against_impl=len(hists), step_kinds=kinds)
    ctx.cov['programs'] = len(hists)
    ctx.cov['disagreements_checked'] = len(hists)
    return vlib.finish(ctx, level='translation_validation')
