"""C08 — a compilation is independent of earlier traces and failures in the process."""
import concurrent.futures
import hashlib
import json
import os
import random
import shutil
import tempfile

import vlib
import surface
import progrun
import mirprint
import targeted
from props import mirprop as mp


def abort_text(prog, k):
    """python text of prog whose nada_main raises after k top-level statements"""
    cut = dict(prog, stmts=prog["stmts"][:k])
    txt = surface.to_python(cut)
    lines = txt.rstrip("\n").split("\n")
    lines[-1] = "    raise RuntimeError('aborted by the history harness')"
    return "\n".join(lines) + "\n"


def dup_input_prog(prog, first=False):
    """a program whose compilation raises: two different inputs under one name, both output (first=True: the failing
    outputs come first and carry the usual output names, so a later program has outputs of the same names)"""
    st = list(prog["stmts"])
    st.append(targeted.inp("dupa", "dup_name", targeted.SI))
    st.append(targeted.inp("dupb", "dup_name", targeted.SI))
    if first:
        return dict(prog, stmts=st, outs=[("out0", "P0", "dupa"), ("out1", "P0", "dupb"), ("o", "P0", "dupb"), ("o1", "P0", "dupb"), ("r", "P0", "dupb")])
    return dict(prog, stmts=st, outs=list(prog["outs"]) + [("d1", "P0", "dupa"), ("d2", "P0", "dupb")])


def tie_source_tables(ctx, rng, ncases):
    """the state-machine model of the source tables (Model/SourceRef.v, parameters regenerated from the source) against the
    real functions, on random operation sequences run one after the other in one process"""
    bases, dirs = ["a.py", "b.py", "prog.py"], ["x", "y", "z"]
    cases = []
    disk, vers = {}, []        # path -> (version, text); version of each touch in order
    for _ in range(ncases):
        ops = []
        if rng.random() < 0.8:
            ops.append(["compile"])
        for _ in range(rng.choice([1, 2, 4, 7])):
            k = rng.random()
            if k < 0.45:
                b = rng.choice(bases)
                path = f"{rng.choice(dirs)}/{b}"
                text = rng.choice(["one\ntwo\n", "ALPHA\n", "x = 1\ny = 2\nz = 3", "", "same", "SAME"])
                if path not in disk or rng.random() < 0.5:          # (re)write the file: new text (possibly of the same size), new stamp
                    disk[path] = (disk.get(path, (0, ""))[0] + 1, text)
                    ops.append(["touch", path, text, disk[path][0]])
                else:                                              # the file is left as it is
                    ops.append(["touch", path, disk[path][1], 0])
                vers.append(disk[path][0])
            elif k < 0.9:
                ops.append(["index", rng.choice(bases + ["ghost.py"]), rng.randrange(1, 4), rng.choice([0, 4, 10]), rng.choice([0, 3, 5])])
            else:
                ops.append(["compile"])
        cases.append(ops)
    d = tempfile.mkdtemp(prefix="nadaverif_c08src_")
    try:
        rc, out, err, dt = vlib.run([vlib.PY, os.path.join(vlib.VERIF, "tools", "impl_srctabs.py")], 300, cwd="/", env=vlib.impl_env(),
                                    input=json.dumps({"root": d, "cases": cases}))
    finally:
        shutil.rmtree(d, ignore_errors=True)
    if rc != 0 or "[" not in out:
        raise RuntimeError("impl_srctabs.py failed: " + vlib.clean_noise(err)[-800:])
    res = json.loads(out[out.index("["):])

    vit = iter(vers)

    def g_op(op):
        if op[0] == "touch":
            return f"(OTouch {vlib.gstr('/' + op[1])} {vlib.gstr(op[1].split('/')[-1])} {vlib.gz(next(vit))} {vlib.gstr(op[2])})"
        if op[0] == "index":
            return f"(OIndex {{| s_file := {vlib.gstr(op[1])}; s_line := {vlib.gz(op[2])}; s_off := {vlib.gz(op[3])}; s_len := {vlib.gz(op[4])} |}})"
        return "OCompileStart"
    items = []
    for ops, r in zip(cases, res):
        refs = vlib.glist([f"{{| s_file := {vlib.gstr(x[0])}; s_line := {vlib.gz(x[1])}; s_off := {vlib.gz(x[2])}; s_len := {vlib.gz(x[3])} |}}" for x in r["refs"]])
        files = vlib.glist([f"({vlib.gstr(k)}, {vlib.gstr(v)})" for k, v in r["files"].items()])
        items.append(f"({vlib.glist([g_op(o) for o in ops])}, {refs}, {files})")
    text = ("From Coq Require Import ZArith List String Bool.\nFrom NadaV.Model Require Import Mir SourceRef.\n"
            "From NadaV.Gen Require GenFrontend GenSourceRef.\nImport ListNotations.\nOpen Scope string_scope.\n"
            "Definition resets := smem \"SourceRef.reset_refs\" GenFrontend.cleared && forallb (fun x => smem x GenSourceRef.sr_reset_clears) [\"REFS\"; \"index_map\"; \"next_index\"].\n"
            "Definition stp := tstep resets GenSourceRef.sr_cache_checks_path.\n"
            "Fixpoint refs_eqb (a b : list sref0) : bool := match a, b with [] , [] => true | x :: a', y :: b' => sref0_eqb x y && refs_eqb a' b' | _, _ => false end.\n"
            "Definition files_eqb (a b : list (string * string)) : bool := forallb (fun x => existsb (fun y => String.eqb (fst x) (fst y) && String.eqb (snd x) (snd y)) b) a "
            "&& forallb (fun x => existsb (fun y => String.eqb (fst x) (fst y) && String.eqb (snd x) (snd y)) a) b.\n"
            "Fixpoint go (cs : list (list sop * list sref0 * list (string * string))) (s : stabs) (i : Z) : list Z := match cs with [] => [] | (ops, rs, fs) :: r => "
            "let s' := fold_left stp ops s in (if refs_eqb (emit_refs s') rs && files_eqb (emit_files GenSourceRef.sr_sources_filtered s') fs then [] else [i]) ++ go r s' (i + 1)%Z end.\n"
            f"Eval vm_compute in (go {vlib.glist(items)} {{| t_refs := []; t_cache := [] |}} 0%Z).\n")
    rc, o, e, dt = vlib.eval_cases(ctx, "c08_srctabs", text, 600)
    if rc != 0:
        ctx.broken.append(dict(kind="correspondence", what="source-table model evaluation failed", detail=(o + e)[-1000:]))
        return
    dis = vlib.parse_zlist(vlib.parse_evals(o)[0])
    ctx.note(f"tie: source-table state machine vs the real SourceRef functions / start of nada_dsl_to_nada_mir on {len(cases)} consecutive operation "
             f"sequences in one process: {len(dis)} disagree")
    ctx.cov["source_table_sequences"] = len(cases)
    if dis:
        ctx.broken.append(dict(kind="correspondence", what="source-table model and implementation disagree",
                               detail=json.dumps(dict(first_disagreeing_case=dis[0], sequences_so_far=cases[:dis[0] + 1], observed=res[dis[0]]))[:3000]))


HELPER_A = "from nada_dsl import *\n\ndef scale(x):\n    return x * Integer(3)\n"
HELPER_B = "from nada_dsl import *\n\ndef scale(x):\n    return x * Integer(2)\n"
MAIN_AB = ("from nada_dsl import *\nfrom helpers import scale\n\n\ndef nada_main():\n    p = Party(name='P0')\n"
           "    v = SecretInteger(Input(name='{n}', party=p))\n    return [Output(scale(v), 'o', p)]\n")
MAIN_PKG = MAIN_AB.replace("from helpers import scale", "from helperpkg.ops import scale")
FAILING_WITH_HELPER = ("from nada_dsl import *\nfrom helpers import scale\n\n\ndef nada_main():\n    p = Party(name='P0')\n"
                       "    v = SecretInteger(Input(name='va', party=p))\n    w = scale(v)\n    raise ValueError('this program is wrong')\n")
REWRITTEN_V1 = ("from nada_dsl import *\n\n\ndef nada_main():\n    p = Party(name='P0')\n    a = SecretInteger(Input(name='a', party=p))\n"
                "    b = SecretInteger(Input(name='b', party=p))\n    c = a * b\n    return [Output(c + undefined_name, 'o', p)]\n")
REWRITTEN_V2 = ("from nada_dsl import *\n\n# fixed: the missing operand is an input now\n\ndef nada_main():\n    p = Party(name='P0')\n"
                "    a = SecretInteger(Input(name='a', party=p))\n    b = SecretInteger(Input(name='b', party=p))\n"
                "    k = SecretInteger(Input(name='k', party=p))\n    c = a * b\n    return [Output(c + k, 'o', p)]\n")
SCALING_PROGRAM = ("from nada_dsl import *\n\ndef scale(x):\n    return x * Integer(3)\n\n\ndef nada_main():\n    p = Party(name='P0')\n"
                   "    v = SecretInteger(Input(name='w', party=p))\n    return [Output(scale(v), 'o', p)]\n")
MAIN_SCALING = ("from nada_dsl import *\nfrom scaling import scale\n\n\ndef nada_main():\n    p = Party(name='P0')\n"
                "    v = SecretInteger(Input(name='v', party=p))\n    return [Output(scale(v), 'o', p)]\n")
SCALING_B = "from nada_dsl import *\n\ndef scale(x):\n    return x * Integer(2)\n"


def strip_loc(m):
    def walk(x):
        if isinstance(x, dict):
            return {k: walk(v) for k, v in x.items() if k != "source_ref_index"}
        if isinstance(x, list):
            return [walk(v) for v in x]
        return x
    return walk({k: v for k, v in m.items() if k not in ("source_files", "source_refs")})


def plans_part(ctx, cands, fresh, good, rng):
    """(a) tracing and compiling interleaved: trace A, trace B, compile A, trace C, compile B — B must come out as when compiled
    alone; (b) programs compiled from files with compile_script one after the other, each with its own helper module of the
    same name / a helper named like an earlier program"""
    d = tempfile.mkdtemp(prefix="nadaverif_c08p_")
    jobs = []
    try:
        n = 12 if ctx.tier == "quick" else 150
        for j in range(n):
            a, b, c = rng.choice(good), rng.choice(good), rng.choice(good)
            pd = os.path.join(d, f"i{j}")
            os.makedirs(pd)
            paths = {}
            for nm, i in (("A", a), ("B", b), ("C", c)):
                paths[nm] = os.path.join(pd, f"{nm}.py")
                open(paths[nm], "w").write(cands[i].get("text") or surface.to_python(cands[i]))
            shape = rng.choice(["abAcB", "abcBA", "abBaA"])
            if shape == "abAcB":
                plan, rep = [["trace", paths["A"], "A"], ["trace", paths["B"], "B"], ["compile", "A"], ["trace", paths["C"], "C"], ["compile", "B"]], "B"
            elif shape == "abcBA":
                plan, rep = [["trace", paths["A"], "A"], ["trace", paths["B"], "B"], ["trace", paths["C"], "C"], ["compile", "B"], ["compile", "A"]], "A"
            else:
                plan, rep = [["trace", paths["A"], "A"], ["trace", paths["B"], "B"], ["compile", "B"], ["compile", "A"], ["compile", "A"]], "A"
            sp = os.path.join(pd, "spec.json")
            json.dump({"plan": plan, "report": rep}, open(sp, "w"))
            jobs.append(("interleaved:" + shape, sp, pd, {"A": a, "B": b, "C": c}[rep], [cands[i].get("text") or surface.to_python(cands[i]) for i in (a, b, c)]))
        # (b) compile_script histories
        # programs given as strings (compile_string), one after the other: each one alone in its own namespace
        STR_A = ("from nada_dsl import *\n\ndef double(x):\n    return x + x\n\n\ndef nada_main():\n    p = Party(name='P0')\n"
                 "    a = SecretInteger(Input(name='a', party=p))\n    return [Output(double(a), 'o', p)]\n")
        STR_NO_ENTRY = ("from nada_dsl import *\n\ndef helper(x):\n    return x * x\n")
        STR_USES_EARLIER_NAME = ("from nada_dsl import *\n\ndef nada_main():\n    p = Party(name='P0')\n"
                                 "    b = SecretInteger(Input(name='b', party=p))\n    return [Output(double(b), 'o', p)]\n")
        STR_SELF_CONTAINED = ("from nada_dsl import *\n\ndef nada_main():\n    p = Party(name='P1')\n"
                              "    c = SecretInteger(Input(name='c', party=p))\n    d = PublicInteger(Input(name='d', party=p))\n    return [Output(c * d, 'o', p)]\n")
        for tag, second in (("string-without-entry-point-after-one-with", STR_NO_ENTRY), ("string-using-a-name-of-an-earlier-string", STR_USES_EARLIER_NAME),
                            ("string-after-another-string", STR_SELF_CONTAINED)):
            pd = os.path.join(d, tag)
            os.makedirs(pd, exist_ok=True)
            json.dump({"plan": [["string", STR_A, "a"], ["string", second, "b"]], "report": "b"}, open(os.path.join(pd, "spec.json"), "w"))
            json.dump({"plan": [["string", second, "b"]], "report": "b"}, open(os.path.join(pd, "spec_alone.json"), "w"))
            jobs.append(("scripts:" + tag, os.path.join(pd, "spec.json"), pd, None, {"first (compile_string)": STR_A, "second (compile_string)": second}))
            jobs.append(("scripts-alone:" + tag, os.path.join(pd, "spec_alone.json"), pd, None, {}))
        # a file compiled, rewritten at once with a text of the same length, compiled again — with bytecode caching on,
        # as it is by default (the other histories run with PYTHONDONTWRITEBYTECODE=1)
        pd = os.path.join(d, "file-rewritten-same-size-bytecode-cache-on")
        os.makedirs(os.path.join(pd, "p"), exist_ok=True)
        rp = os.path.join(pd, "p", "prog.py")
        SAME_V1 = ("from nada_dsl import *\n\n\ndef nada_main():\n    p = Party(name='P0')\n    a = SecretInteger(Input(name='a', party=p))\n"
                   "    b = SecretInteger(Input(name='b', party=p))\n    c = a + b\n    return [Output(c, 'o', p)]\n")
        SAME_V2 = SAME_V1.replace("c = a + b", "c = a * b")
        open(rp, "w").write(SAME_V1)
        json.dump({"plan": [["write", rp, SAME_V1, 100_000_000], ["script", rp, "v1"], ["write", rp, SAME_V2, 300_000_000], ["script", rp, "v2"]], "report": "v2"},
                  open(os.path.join(pd, "spec.json"), "w"))
        os.makedirs(os.path.join(pd, "alone", "p"), exist_ok=True)       # its own directory: the two runs are concurrent
        rpa = os.path.join(pd, "alone", "p", "prog.py")
        json.dump({"plan": [["write", rpa, SAME_V2, 300_000_000], ["script", rpa, "v2"]], "report": "v2"}, open(os.path.join(pd, "spec_alone.json"), "w"))
        jobs.append(("scripts:file-rewritten-same-size-bytecode-cache-on", os.path.join(pd, "spec.json"), pd, None,
                     {"p/prog.py (first)": SAME_V1, "p/prog.py (then, same length, within the same second)": SAME_V2, "environment": "bytecode caching on (no PYTHONDONTWRITEBYTECODE)"}, None, True))
        jobs.append(("scripts-alone:file-rewritten-same-size-bytecode-cache-on", os.path.join(pd, "spec_alone.json"), pd, None, {}, None, True))
        # the MIR dict returned by nada_dsl_to_nada_mir is kept by the caller while another program is compiled
        pd = os.path.join(d, "returned-mir-held-while-another-program-compiles")
        os.makedirs(pd, exist_ok=True)
        open(os.path.join(pd, "first.py"), "w").write(STR_A)
        open(os.path.join(pd, "second.py"), "w").write(STR_SELF_CONTAINED)
        json.dump({"plan": [["trace", os.path.join(pd, "first.py"), "a"], ["compile_dict", "a"], ["trace", os.path.join(pd, "second.py"), "b"], ["compile", "b"]],
                   "report": "a"}, open(os.path.join(pd, "spec.json"), "w"))
        json.dump({"plan": [["trace", os.path.join(pd, "first.py"), "a"], ["compile_dict", "a"]], "report": "a"}, open(os.path.join(pd, "spec_alone.json"), "w"))
        jobs.append(("scripts:returned-mir-held-while-another-program-compiles", os.path.join(pd, "spec.json"), pd, None,
                     {"first.py (its MIR dict is kept)": STR_A, "second.py (compiled afterwards)": STR_SELF_CONTAINED}))
        jobs.append(("scripts-alone:returned-mir-held-while-another-program-compiles", os.path.join(pd, "spec_alone.json"), pd, None, {}))
        # a program with written literals compiled after one whose literals were folded away (twelfth seeding round)
        pd = os.path.join(d, "literals-after-a-program-with-folded-literals")
        os.makedirs(pd, exist_ok=True)
        FOLD_A = ("from nada_dsl import *\n\ndef nada_main():\n    p = Party(name='P0')\n    x = SecretInteger(Input(name='x', party=p))\n"
                  "    y = x * (Integer(1) + Integer(2)) + Integer(10)\n    return [Output(y, 'o', p)]\n")
        FOLD_B = ("from nada_dsl import *\n\ndef nada_main():\n    p = Party(name='P0')\n    x = SecretInteger(Input(name='x', party=p))\n"
                  "    y = x * Integer(3) + Integer(10) - Integer(7)\n    z = y + (Integer(20) - Integer(5)) * Integer(2)\n    return [Output(z, 'o', p)]\n")
        open(os.path.join(pd, "first.py"), "w").write(FOLD_A)
        open(os.path.join(pd, "second.py"), "w").write(FOLD_B)
        json.dump({"plan": [["trace", os.path.join(pd, "first.py"), "a"], ["compile", "a"], ["trace", os.path.join(pd, "second.py"), "b"], ["compile", "b"]],
                   "report": "b"}, open(os.path.join(pd, "spec.json"), "w"))
        json.dump({"plan": [["trace", os.path.join(pd, "second.py"), "b"], ["compile", "b"]], "report": "b"}, open(os.path.join(pd, "spec_alone.json"), "w"))
        jobs.append(("scripts:literals-after-a-program-with-folded-literals", os.path.join(pd, "spec.json"), pd, None,
                     {"first.py (literals folded)": FOLD_A, "second.py (compiled afterwards in the same process)": FOLD_B}))
        jobs.append(("scripts-alone:literals-after-a-program-with-folded-literals", os.path.join(pd, "spec_alone.json"), pd, None, {}))
        # the program's directory is ALREADY on sys.path (PYTHONPATH): compiling one program of it must not take it away
        pd = os.path.join(d, "directory-already-on-the-path")
        os.makedirs(os.path.join(pd, "lib"), exist_ok=True)
        os.makedirs(os.path.join(pd, "app"), exist_ok=True)
        open(os.path.join(pd, "lib", "shared_ops.py"), "w").write(HELPER_A.replace("def scale", "def shared_scale"))
        open(os.path.join(pd, "lib", "prog_one.py"), "w").write(MAIN_AB.format(n="va").replace("from helpers import scale", "from shared_ops import shared_scale as scale"))
        open(os.path.join(pd, "app", "prog_two.py"), "w").write(MAIN_AB.format(n="vb").replace("from helpers import scale", "from shared_ops import shared_scale as scale"))
        json.dump({"plan": [["script", os.path.join(pd, "lib", "prog_one.py"), "one"], ["script", os.path.join(pd, "app", "prog_two.py"), "two"]], "report": "two"},
                  open(os.path.join(pd, "spec.json"), "w"))
        json.dump({"plan": [["script", os.path.join(pd, "app", "prog_two.py"), "two"]], "report": "two"}, open(os.path.join(pd, "spec_alone.json"), "w"))
        jobs.append(("scripts:directory-already-on-the-path", os.path.join(pd, "spec.json"), pd, None,
                     {"PYTHONPATH": "<dir>/lib", "lib/shared_ops.py": "...", "lib/prog_one.py": "compiled first", "app/prog_two.py": "imports shared_ops too"}, os.path.join(pd, "lib")))
        jobs.append(("scripts-alone:directory-already-on-the-path", os.path.join(pd, "spec_alone.json"), pd, None, {}, os.path.join(pd, "lib")))
        # two programs share a library module that lives outside their directories (on PYTHONPATH) and defines nada
        # functions at module level: it stays imported, its functions were traced during the first compilation
        pd = os.path.join(d, "shared-library-with-module-level-functions")
        for sub in ("lib", "one", "two", "alone"):
            os.makedirs(os.path.join(pd, sub), exist_ok=True)
        LIB_FNS = ('"""Functions shared by several programs."""\nfrom nada_dsl import *\n\n\n@nada_fn\ndef add(a: SecretInteger, b: SecretInteger) -> SecretInteger:\n'
                   '    return a + b\n\n\n@nada_fn\ndef twice(a: SecretInteger) -> SecretInteger:\n    return a * Integer(2)\n')
        LIB_P1 = ("from nada_dsl import *\nfrom shared_fns import add\n\n\ndef nada_main():\n    p = Party(name='P0')\n"
                  "    xs = Array(SecretInteger(Input(name='xs', party=p)), size=3)\n    z = SecretInteger(Input(name='z', party=p))\n"
                  "    return [Output(xs.reduce(add, z), 'total', p)]\n")
        LIB_P2 = ("from nada_dsl import *\nfrom shared_fns import twice, add\n\n\ndef nada_main():\n    q = Party(name='P1')\n"
                  "    ys = Array(SecretInteger(Input(name='ys', party=q)), size=4)\n    z = SecretInteger(Input(name='z', party=q))\n"
                  "    zs = ys.map(twice)\n    return [Output(zs.reduce(add, z), 'out', q)]\n")
        open(os.path.join(pd, "lib", "shared_fns.py"), "w").write(LIB_FNS)
        open(os.path.join(pd, "one", "first.py"), "w").write(LIB_P1)
        open(os.path.join(pd, "two", "second.py"), "w").write(LIB_P2)
        json.dump({"plan": [["script", os.path.join(pd, "one", "first.py"), "one"], ["script", os.path.join(pd, "two", "second.py"), "two"]], "report": "two"},
                  open(os.path.join(pd, "spec.json"), "w"))
        json.dump({"plan": [["script", os.path.join(pd, "two", "second.py"), "two"]], "report": "two"}, open(os.path.join(pd, "spec_alone.json"), "w"))
        jobs.append(("scripts:shared-library-with-module-level-functions", os.path.join(pd, "spec.json"), pd, None,
                     {"PYTHONPATH": "<dir>/lib", "lib/shared_fns.py": LIB_FNS, "one/first.py (compiled first)": LIB_P1, "two/second.py": LIB_P2}, os.path.join(pd, "lib")))
        jobs.append(("scripts-alone:shared-library-with-module-level-functions", os.path.join(pd, "spec_alone.json"), pd, None, {}, os.path.join(pd, "lib")))
        # one program compiled twice, its HELPER edited in between (the program file itself is untouched)
        pd = os.path.join(d, "helper-edited-between-two-compilations")
        os.makedirs(os.path.join(pd, "p"), exist_ok=True)
        os.makedirs(os.path.join(pd, "alone", "p"), exist_ok=True)
        PAY = ("from nada_dsl import *\nfrom formulas import yearly\n\n\ndef nada_main():\n    p = Party(name='P0')\n"
               "    base = SecretInteger(Input(name='base', party=p))\n    bonus = SecretInteger(Input(name='bonus', party=p))\n"
               "    return [Output(yearly(base, bonus), 'pay', p)]\n")
        FORM_V1 = "from nada_dsl import *\n\n\ndef yearly(base, bonus):\n    return base + bonus\n"
        FORM_V2 = "from nada_dsl import *\n\n\ndef yearly(base, bonus):\n    return base * Integer(12) + bonus * bonus\n"
        open(os.path.join(pd, "p", "payroll.py"), "w").write(PAY)
        open(os.path.join(pd, "p", "formulas.py"), "w").write(FORM_V1)
        open(os.path.join(pd, "alone", "p", "payroll.py"), "w").write(PAY)
        open(os.path.join(pd, "alone", "p", "formulas.py"), "w").write(FORM_V2)
        json.dump({"plan": [["script", os.path.join(pd, "p", "payroll.py"), "v1"], ["write", os.path.join(pd, "p", "formulas.py"), FORM_V2],
                            ["script", os.path.join(pd, "p", "payroll.py"), "v2"]], "report": "v2"}, open(os.path.join(pd, "spec.json"), "w"))
        json.dump({"plan": [["script", os.path.join(pd, "alone", "p", "payroll.py"), "v2"]], "report": "v2"}, open(os.path.join(pd, "spec_alone.json"), "w"))
        jobs.append(("scripts:helper-edited-between-two-compilations", os.path.join(pd, "spec.json"), pd, None,
                     {"p/payroll.py (compiled twice, untouched)": PAY, "p/formulas.py (first)": FORM_V1, "p/formulas.py (then)": FORM_V2}))
        jobs.append(("scripts-alone:helper-edited-between-two-compilations", os.path.join(pd, "spec_alone.json"), pd, None, {}))
        # each program appends its OWN lib/ directory to sys.path and imports a helper of the same name from it
        pd = os.path.join(d, "helper-directory-added-to-the-path-by-the-program")
        OWN_MAIN = ("import os\nimport sys\nsys.path.append(os.path.join(os.path.dirname(os.path.abspath(__file__)), 'lib'))\n"
                    "from nada_dsl import *\nfrom util import combine\n\n\ndef nada_main():\n    p = Party(name='P0')\n"
                    "    a = SecretInteger(Input(name='a', party=p))\n    b = SecretInteger(Input(name='b', party=p))\n"
                    "    return [Output(combine(a, b), 'o', p)]\n")
        OWN_U1 = "from nada_dsl import *\n\n\ndef combine(x, y):\n    return x + y\n"
        OWN_U2 = "from nada_dsl import *\n\n\ndef combine(x, y):\n    return x * y - x\n"
        for sub, ut in (("h1", OWN_U1), ("h2", OWN_U2), ("alone/h2", OWN_U2)):
            os.makedirs(os.path.join(pd, sub, "lib"), exist_ok=True)
            open(os.path.join(pd, sub, "main.py"), "w").write(OWN_MAIN)
            open(os.path.join(pd, sub, "lib", "util.py"), "w").write(ut)
        json.dump({"plan": [["script", os.path.join(pd, "h1", "main.py"), "one"], ["script", os.path.join(pd, "h2", "main.py"), "two"]], "report": "two"},
                  open(os.path.join(pd, "spec.json"), "w"))
        json.dump({"plan": [["script", os.path.join(pd, "alone", "h2", "main.py"), "two"]], "report": "two"}, open(os.path.join(pd, "spec_alone.json"), "w"))
        jobs.append(("scripts:helper-directory-added-to-the-path-by-the-program", os.path.join(pd, "spec.json"), pd, None,
                     {"h1/main.py = h2/main.py": OWN_MAIN, "h1/lib/util.py": OWN_U1, "h2/lib/util.py": OWN_U2}))
        jobs.append(("scripts-alone:helper-directory-added-to-the-path-by-the-program", os.path.join(pd, "spec_alone.json"), pd, None, {}))
        # a file compiled (and failing), edited, compiled again under the same path in the same process
        pd = os.path.join(d, "rewritten-after-failure")
        os.makedirs(os.path.join(pd, "p"), exist_ok=True)
        rp = os.path.join(pd, "p", "prog.py")
        open(rp, "w").write(REWRITTEN_V1)
        json.dump({"plan": [["script", rp, "v1"], ["write", rp, REWRITTEN_V2], ["script", rp, "v2"]], "report": "v2"}, open(os.path.join(pd, "spec.json"), "w"))
        os.makedirs(os.path.join(pd, "alone", "p"), exist_ok=True)       # its own directory: the two runs are concurrent
        rpa = os.path.join(pd, "alone", "p", "prog.py")
        json.dump({"plan": [["write", rpa, REWRITTEN_V2], ["script", rpa, "v2"]], "report": "v2"}, open(os.path.join(pd, "spec_alone.json"), "w"))
        jobs.append(("scripts:file-rewritten-after-a-failed-compilation", os.path.join(pd, "spec.json"), pd, None, {"p/prog.py (first)": REWRITTEN_V1, "p/prog.py (then)": REWRITTEN_V2}))
        jobs.append(("scripts-alone:file-rewritten-after-a-failed-compilation", os.path.join(pd, "spec_alone.json"), pd, None, {}))
        for tag, files, order, rep in (
            ("helper-of-a-program-that-raised", {"a/main.py": FAILING_WITH_HELPER, "a/helpers.py": HELPER_A, "b/main.py": MAIN_AB.format(n="vb"), "b/helpers.py": HELPER_B},
             ["a/main.py", "b/main.py"], "b/main.py"),
            ("same-helper-name", {"a/main.py": MAIN_AB.format(n="va"), "a/helpers.py": HELPER_A, "b/main.py": MAIN_AB.format(n="vb"), "b/helpers.py": HELPER_B},
             ["a/main.py", "b/main.py"], "b/main.py"),
            ("helper-named-like-earlier-program", {"a/scaling.py": SCALING_PROGRAM, "b/main.py": MAIN_SCALING, "b/scaling.py": SCALING_B},
             ["a/scaling.py", "b/main.py"], "b/main.py"),
            ("same-helper-package", {"a/main.py": MAIN_PKG.format(n="va"), "a/helperpkg/__init__.py": "", "a/helperpkg/ops.py": HELPER_A,
                                     "b/main.py": MAIN_PKG.format(n="vb"), "b/helperpkg/__init__.py": "", "b/helperpkg/ops.py": HELPER_B},
             ["a/main.py", "b/main.py"], "b/main.py"),
            ("same-helper-namespace-package", {"a/main.py": MAIN_PKG.format(n="va"), "a/helperpkg/ops.py": HELPER_A,
                                               "b/main.py": MAIN_PKG.format(n="vb"), "b/helperpkg/ops.py": HELPER_B},
             ["a/main.py", "b/main.py"], "b/main.py")):
            pd = os.path.join(d, tag)
            for rel, text in files.items():
                os.makedirs(os.path.dirname(os.path.join(pd, rel)), exist_ok=True)
                open(os.path.join(pd, rel), "w").write(text)
            sp = os.path.join(pd, "spec.json")
            json.dump({"plan": [["script", os.path.join(pd, r), r] for r in order], "report": rep}, open(sp, "w"))
            sp0 = os.path.join(pd, "spec_alone.json")
            json.dump({"plan": [["script", os.path.join(pd, rep), rep]], "report": rep}, open(sp0, "w"))
            jobs.append(("scripts:" + tag, sp, pd, None, files))
            jobs.append(("scripts-alone:" + tag, sp0, pd, None, files))

        def one(job):
            env = vlib.impl_env()
            if len(job) > 5 and job[5]:      # an extra directory the user has on PYTHONPATH
                env["PYTHONPATH"] = env["PYTHONPATH"] + os.pathsep + job[5]
            if len(job) > 6 and job[6]:      # bytecode caching as by default
                env.pop("PYTHONDONTWRITEBYTECODE", None)
            rc, out, err, dt = vlib.run([vlib.PY, os.path.join(vlib.VERIF, "tools", "run_history.py"), job[1]], 180, cwd=job[2], env=env)
            ls = [l for l in out.splitlines() if l.startswith("{")]
            return json.loads(ls[-1]) if ls else {"exc": "HarnessFailure", "msg": vlib.clean_noise(err)[-300:]}
        with concurrent.futures.ThreadPoolExecutor(max_workers=vlib.NCPU) as ex:
            res = list(ex.map(one, jobs))
    finally:
        shutil.rmtree(d, ignore_errors=True)
    if any(r.get("exc") == "HarnessFailure" for r in res):
        raise RuntimeError("plan harness failed: " + str([r for r in res if r.get("exc") == "HarnessFailure"][0]))
    # interleavings: equivalence up to renaming, in Coq
    inter = [(j, r) for j, r in zip(jobs, res) if j[0].startswith("interleaved")]
    items = [f"({mirprint.g_ioutcome(r)}, {mirprint.g_ioutcome(fresh[j[3]])})" for j, r in inter]
    text = (progrun.HEAD + "From NadaV.Spec Require Import MirSpec Equiv.\n"
            "Definition cases : list (ioutcome * ioutcome) :=\n  [" + ";\n   ".join(items) + "].\n"
            "Eval vm_compute in (indices_where (fun c : ioutcome * ioutcome => match fst c, snd c with IOk ma, IOk mf => negb (mir_equivb ma mf) "
            "| IRaise _, IRaise _ => false | _, _ => true end) cases 0%Z).\n")
    rc, o, e, dt = vlib.eval_cases(ctx, "c08_plans", text, 900)
    if rc != 0:
        raise RuntimeError("cases c08_plans failed: " + (o + e)[-1200:])
    bad = vlib.parse_zlist(vlib.parse_evals(o)[0])
    for i in bad[:3]:
        j, r = inter[i]
        vlib.report_failure(ctx, "C08/" + j[0], "a program traced before another compilation and compiled after a later trace differs from the same program compiled alone",
                            dict(case=dict(kind="interleaved-history", order=j[0], programs=dict(zip("ABC", j[4]))),
                                 observed=(r if "ok" not in r else {k: r["ok"][k] for k in ("inputs", "parties", "literals", "outputs")}),
                                 how_to_replay="tools/run_history.py with a plan: trace / compile steps in the given order"))
    # compile_script histories: the reported program after the history vs compiled alone (another process), up to renaming (Coq)
    sc = {j[0]: (j, r) for j, r in zip(jobs, res) if j[0].startswith("scripts")}
    tags = ("same-helper-name", "helper-named-like-earlier-program", "same-helper-package", "same-helper-namespace-package",
            "helper-of-a-program-that-raised", "file-rewritten-after-a-failed-compilation",
            "string-without-entry-point-after-one-with", "string-using-a-name-of-an-earlier-string", "string-after-another-string",
            "directory-already-on-the-path", "returned-mir-held-while-another-program-compiles",
            "file-rewritten-same-size-bytecode-cache-on", "shared-library-with-module-level-functions",
            "helper-edited-between-two-compilations", "helper-directory-added-to-the-path-by-the-program",
            "literals-after-a-program-with-folded-literals")
    items = [f"({mirprint.g_ioutcome(sc['scripts:' + t][1])}, {mirprint.g_ioutcome(sc['scripts-alone:' + t][1])})" for t in tags]
    text = (progrun.HEAD + "From NadaV.Spec Require Import MirSpec Equiv.\n"
            "Definition cases : list (ioutcome * ioutcome) :=\n  [" + ";\n   ".join(items) + "].\n"
            "Eval vm_compute in (indices_where (fun c : ioutcome * ioutcome => match fst c, snd c with IOk ma, IOk mf => negb (mir_equivb ma mf) "
            "| IRaise _, IRaise _ => false | _, _ => true end) cases 0%Z).\n")
    rc, o, e, dt = vlib.eval_cases(ctx, "c08_scripts", text, 900)
    if rc != 0:
        raise RuntimeError("cases c08_scripts failed: " + (o + e)[-1200:])
    sbad = vlib.parse_zlist(vlib.parse_evals(o)[0])
    nsb = len(sbad)
    # ... and the embedded source texts / resolved references of the same histories
    def resolved(m):
        return sorted((r["file"], r["lineno"], r["offset"], r["length"]) for r in m["source_refs"])
    for tag in tags:
        (j, r), (_, r0) = sc["scripts:" + tag], sc["scripts-alone:" + tag]
        if "ok" in r and "ok" in r0 and (r["ok"]["source_files"] != r0["ok"]["source_files"] or resolved(r["ok"]) != resolved(r0["ok"])):
            nsb += 1
            vlib.report_failure(ctx, "C08/scripts-sources:" + tag,
                                "the source texts / references of a program compiled with compile_script after another one differ from the same program compiled alone",
                                dict(case=dict(kind="compile_script-history", files=j[4]),
                                     observed=dict(source_files={f: t[:160] for f, t in r["ok"]["source_files"].items()}, source_refs=resolved(r["ok"])[:8]),
                                     expected=dict(source_files={f: t[:160] for f, t in r0["ok"]["source_files"].items()}, source_refs=resolved(r0["ok"])[:8]),
                                     how_to_replay="in one process: compile_script(<first>) (rewrite the file if the history says so) then compile_script(<second>); compare with the second alone"))
    for i in sbad:
        tag = tags[i]
        (j, r), (_, r0) = sc["scripts:" + tag], sc["scripts-alone:" + tag]
        vlib.report_failure(ctx, "C08/scripts:" + tag, "a program compiled with compile_script after another one differs from the same program compiled alone",
                            dict(case=dict(kind="compile_script-history", files=j[4]),
                                 observed=(r if "ok" not in r else {k: r["ok"][k] for k in ("literals", "inputs", "outputs")}),
                                 expected=(r0 if "ok" not in r0 else {k: r0["ok"][k] for k in ("literals", "inputs", "outputs")}),
                                 how_to_replay="in one process: compile_script(<first>) then compile_script(<second>); compare with compile_script(<second>) alone"))
    ctx.note(f"validate: {len(inter)} interleaved trace/compile plans: {len(bad)} differ from the program compiled alone; "
             f"{len(tags)} compile_script histories with helper modules / packages: {nsb} differ")
    ctx.cov["interleaved_plans"] = len(inter)
    ctx.cov["compile_script_histories"] = len(tags)


def run(ctx):
    ok_x = vlib.step_extract(ctx)
    ok_p = vlib.step_prove(ctx) if ok_x else False
    rng = random.Random(ctx.seed)
    nprog = 120 if ctx.tier == "quick" else 1200
    nhist = 100 if ctx.tier == "quick" else 1500
    ntargeted = len(targeted.all_families())
    cands = targeted.all_families() + progrun.generate(ctx.seed, nprog, sizes=(3, 14))
    fresh = progrun.run_impl(cands)
    good = [i for i, r in enumerate(fresh) if "ok" in r]
    ctx.note(f"pool: {len(cands)} programs, {len(good)} accepted when compiled alone in a fresh process")
    hists = []
    for h in range(nhist):
        steps = []
        for _ in range(rng.choice([1, 1, 2, 3, 4])):
            i = rng.choice(good)
            kind = rng.choice(["complete", "complete", "abort", "dup"])
            if kind == "abort":
                k = rng.randrange(0, len(cands[i]["stmts"]) + 1)
                # a plain `def` passed to map/reduce is wrapped (and allocates its ids) at its first use; the surface
                # statement SDef stands for definition + wrapping, so a prefix must not end between the two
                while k > 0 and cands[i]["stmts"][k - 1].get("form") == "plain":
                    k -= 1
                steps.append(("abort", i, k))
            else:
                steps.append((kind, i, None))
        probe = rng.choice(good)
        if h % 5 == 0:
            # the same traced outputs compiled twice; prefer the targeted families (functions with literals / inputs in their body)
            tg = [i for i in good if i < ntargeted]
            probe = tg[(h // 5) % len(tg)]
        hists.append((steps, probe, "twice" if h % 5 == 0 else False))
    # the same probe twice, with and without timers
    hists.append(([("complete", good[0], None)], good[0], False))
    hists.append(([("complete", good[0], None)], good[0], True))
    # timers on, an earlier compilation that raises while processing outputs of the usual names, then a probe
    for j in range(4 if ctx.tier == "quick" else 30):
        hists.append(([("dupfirst", rng.choice(good), None)], rng.choice(good), True))
    d = tempfile.mkdtemp(prefix="nadaverif_c08_")
    try:
        def one(hi):
            steps, probe, timers = hists[hi]
            paths = []
            same = (hi % 2 == 0)
            for si, (kind, i, k) in enumerate(steps):
                os.makedirs(os.path.join(d, f"h{hi}", f"s{si}"), exist_ok=True)
                path = os.path.join(d, f"h{hi}", f"s{si}", "prog.py" if same else f"step{si}.py")
                if kind == "complete":
                    txt = cands[i].get("text") or surface.to_python(cands[i])
                elif kind == "abort":
                    txt = abort_text(cands[i], k)
                elif kind == "dupfirst":
                    txt = surface.to_python(dup_input_prog(cands[i], first=True))
                else:
                    txt = surface.to_python(dup_input_prog(cands[i]))
                open(path, "w").write(txt)
                paths.append(path)
            os.makedirs(os.path.join(d, f"h{hi}", "probe"), exist_ok=True)
            pp = os.path.join(d, f"h{hi}", "probe", "prog.py")
            open(pp, "w").write(cands[probe].get("text") or surface.to_python(cands[probe]))   # the text the fresh run compiled
            sp = os.path.join(d, f"h{hi}", "spec.json")
            json.dump({"steps": paths, "probe": pp, "timers": timers is True, "probe_twice": timers == "twice"}, open(sp, "w"))
            rc, out, err, dt = vlib.run([vlib.PY, os.path.join(vlib.VERIF, "tools", "run_history.py"), sp], 180, cwd=d,
                                        env=vlib.impl_env())
            ls = [l for l in out.splitlines() if l.startswith("{")]
            if not ls:
                return {"exc": "HarnessFailure", "msg": vlib.clean_noise(err)[-300:]}
            return json.loads(ls[-1])
        with concurrent.futures.ThreadPoolExecutor(max_workers=vlib.NCPU) as ex:
            after = list(ex.map(one, range(len(hists))))
    finally:
        shutil.rmtree(d, ignore_errors=True)
    if any(r.get("exc") == "HarnessFailure" for r in after):
        raise RuntimeError("history harness failed: " + str([r for r in after if r.get("exc") == "HarnessFailure"][0]))
    # ---- validate: probe after history == probe compiled alone, up to renaming (Spec/Equiv.v), evaluated in Coq
    def g_steps(steps):
        items = []
        for kind, i, k in steps:
            if kind == "abort":
                items.append(f"(HAbortTrace {vlib.glist([surface.g_stmt(s) for s in cands[i]['stmts'][:k]])})")
            elif kind == "dup":
                items.append(f"(HComplete {surface.to_gallina(dup_input_prog(cands[i]))})")
            elif kind == "dupfirst":
                items.append(f"(HComplete {surface.to_gallina(dup_input_prog(cands[i], first=True))})")
            else:
                items.append(f"(HComplete {surface.to_gallina(cands[i])})")
        return vlib.glist(items)
    head = progrun.HEAD + "From NadaV.Spec Require Import MirSpec Equiv.\n"

    def g_tabs(res, own):
        """source tables of a MIR with the program's own file name normalised"""
        if "ok" not in res:
            return "{| st_files := []; st_refs := [] |}"
        m = res["ok"]
        nm = lambda f: "<program>" if f == own else f
        files = vlib.glist([f"({vlib.gstr(nm(f))}, {vlib.gstr(hashlib.md5(t.encode()).hexdigest())})" for f, t in m["source_files"].items()])
        refs = vlib.glist([f"{{| sr_file := {vlib.gstr(nm(r['file']))}; sr_line := {vlib.gz(r['lineno'])}; sr_off := {vlib.gz(r['offset'])}; "
                           f"sr_len := {vlib.gz(r['length'])} |}}" for r in m["source_refs"]])
        return f"{{| st_files := {files}; st_refs := {refs} |}}"
    per = 12
    shards = []
    for s in range(0, len(hists), per):
        items = []
        for hi in range(s, min(len(hists), s + per)):
            steps, probe, timers = hists[hi]
            items.append(f"({g_steps(steps)}, {surface.to_gallina(cands[probe])}, {mirprint.g_ioutcome(after[hi])}, "
                         f"{mirprint.g_ioutcome(fresh[probe])}, {g_tabs(after[hi], 'prog.py')}, {g_tabs(fresh[probe], f'prog_{probe}.py')})")
        shards.append((s, items))

    def eval_shard(args):
        s, items = args
        text = head + "Definition cases : list (list hstep * program * ioutcome * ioutcome * srctabs * srctabs) :=\n  [" + ";\n   ".join(items) + "].\n"
        text += ("Eval vm_compute in (indices_where (fun c : list hstep * program * ioutcome * ioutcome * srctabs * srctabs => "
                 "let '(h, p, a, f, ta, tf) := c in match a, f with IOk ma, IOk mf => negb (mir_equivb ma mf) | _, _ => true end) cases 0%Z).\n")
        text += ("Eval vm_compute in (indices_where (fun c : list hstep * program * ioutcome * ioutcome * srctabs * srctabs => "
                 "let '(h, p, a, f, ta, tf) := c in match a, f with IOk ma, IOk mf => Z.eqb (sources_diff ta tf) 1 | _, _ => false end) cases 0%Z).\n")
        text += ("Eval vm_compute in (indices_where (fun c : list hstep * program * ioutcome * ioutcome * srctabs * srctabs => "
                 "let '(h, p, a, f, ta, tf) := c in match a, f with IOk ma, IOk mf => Z.eqb (sources_diff ta tf) 2 | _, _ => false end) cases 0%Z).\n")
        rc, o, e, dt = vlib.eval_cases(ctx, f"c08_spec_{s}", text, 900)
        if rc != 0:
            raise RuntimeError("cases c08_spec failed: " + (o + e)[-1200:])
        evs = vlib.parse_evals(o)
        bad = [s + i for i in vlib.parse_zlist(evs[0])]
        srcbad = [(s + i, "files") for i in vlib.parse_zlist(evs[1])] + [(s + i, "refs") for i in vlib.parse_zlist(evs[2])]
        dis = None
        if ok_x:
            cleared = "(smem \"FUNCTIONS\" GenFrontend.cleared)"
            text2 = head + "From NadaV.Gen Require GenScalar GenFrontend.\n" + \
                "Definition cases : list (list hstep * program * ioutcome * ioutcome * srctabs * srctabs) :=\n  [" + ";\n   ".join(items) + "].\n" + \
                ("Eval vm_compute in (indices_where (fun c : list hstep * program * ioutcome * ioutcome * srctabs * srctabs => "
                 f"let '(h, p, a, f, ta, tf) := c in negb (outcome_agrees (run_after GenScalar.G {cleared} h p) a)) cases 0%Z).\n")
            rc, o, e, dt = vlib.eval_cases(ctx, f"c08_model_{s}", text2, 900)
            if rc != 0:
                raise RuntimeError("cases c08_model failed: " + (o + e)[-1200:])
            dis = [s + i for i in vlib.parse_zlist(vlib.parse_evals(o)[0])]
        return bad, dis, srcbad
    bad, dis, srcbad = [], [], []
    with concurrent.futures.ThreadPoolExecutor(max_workers=vlib.NCPU) as ex:
        for b, d2, sb in ex.map(eval_shard, shards):
            bad += b
            srcbad += sb
            if d2 is not None:
                dis += d2
    ctx.note(f"validate: {len(hists)} histories (1-4 earlier programs: complete / aborted mid-trace / aborted while compiling) run in one "
             f"process each; probe MIR vs fresh-process MIR up to renaming (Coq, Spec/Equiv.v): {len(bad)} differ")
    for hi in sorted(bad)[:40]:
        steps, probe, timers = hists[hi]
        a = after[hi]
        if timers is True and a.get("exc") == "TimerError":
            key = "C08/timers:second-compile-raises"
        elif "ok" in a and len(a["ok"]["functions"]) > len(fresh[probe]["ok"]["functions"]):
            key = "C08/stale:functions-of-earlier-programs"
        else:
            key = "C08/history"
        vlib.report_failure(ctx, key, f"the probe compiled after this history differs from the probe compiled alone ({a.get('exc', 'different MIR')})",
                            dict(case=dict(kind="history", timers=(timers is True), probe_compiled_twice=(timers == "twice"),
                                           steps=[dict(kind=k, python_source=(abort_text(cands[i], kk) if k == "abort" else
                                                       surface.to_python(dup_input_prog(cands[i], first=(k == "dupfirst")) if k in ("dup", "dupfirst") else cands[i])))
                                                  for k, i, kk in steps],
                                           probe=surface.to_python(cands[probe])),
                                 observed=(a if "ok" not in a else {k: a["ok"][k] for k in ("functions", "inputs", "parties", "literals", "outputs")}),
                                 how_to_replay="write the step programs and the probe to files; tools/run_history.py <spec.json> in one process"))
    plans_part(ctx, cands, fresh, good, rng)
    ctx.note(f"validate: source tables (source_files, source_refs) of the probe after the history vs compiled alone (Spec/Equiv.sources_sameb): "
             f"{len(srcbad)} differ")
    seen_kinds = set()
    for hi, what in sorted(srcbad):
        steps, probe, timers = hists[hi]
        same = (hi % 2 == 0)
        key = f"C08/sources:{what}:" + ("same-file-name" if same and what == "files" and set(after[hi]["ok"]["source_files"]) == {"prog.py"} else "earlier-program")
        if key in seen_kinds:
            continue
        seen_kinds.add(key)
        vlib.report_failure(ctx, key, "the source tables of the probe's MIR contain material of earlier programs "
                            + ("(the text embedded under the probe's file name is an earlier program's)" if key.endswith("same-file-name") else f"({what})"),
                            dict(case=dict(kind="history", layout=("every program saved as prog.py in its own directory" if same else "distinct file names"),
                                           steps=[dict(kind=k, python_source=(abort_text(cands[i], kk) if k == "abort" else
                                                       surface.to_python(dup_input_prog(cands[i], first=(k == "dupfirst")) if k in ("dup", "dupfirst") else cands[i])))
                                                  for k, i, kk in steps],
                                           probe=surface.to_python(cands[probe])),
                                 observed=dict(source_files={f: t[:120] for f, t in after[hi]["ok"]["source_files"].items()},
                                               source_refs=after[hi]["ok"]["source_refs"][:12]),
                                 expected=dict(source_files=list(fresh[probe]["ok"]["source_files"]), source_refs=fresh[probe]["ok"]["source_refs"][:12]),
                                 how_to_replay="write the step programs and the probe to files; tools/run_history.py <spec.json> in one process"))
    if ok_x:
        tie_source_tables(ctx, rng, 120 if ctx.tier == "quick" else 1500)
        ctx.note(f"tie: model run_after (state carried across programs) vs implementation on {len(hists)} histories: {len(dis)} disagree")
        ctx.cov["model_impl_disagreements"] = len(dis)
        real = [hi for hi in dis if hists[hi][2] is not True]
        if real:
            ctx.broken.append(dict(kind="correspondence", what="history model and implementation disagree",
                                   detail=json.dumps([hists[hi][0] for hi in real[:3]])))
    kinds = {}
    for steps, _, _ in hists:
        for k, _, _ in steps:
            kinds[k] = kinds.get(k, 0) + 1
    ctx.cov.update(evaluations=len(hists), distinct_nontrivial=len({json.dumps([s, p]) for s, p, _ in hists if len(s) >= 1}),
                   rule="histories of 1-4 earlier programs (complete, aborted by an exception after k top-level DSL statements, or aborted "
                        "during compilation by a duplicate input) followed by a probe, each history in one real process; distinct = "
                        "distinct (steps, probe); non-trivial = at least one earlier program",
                   samples=[dict(steps=[(k, i, kk) for k, i, kk in hists[j][0]], probe=hists[j][1]) for j in (0, 1, 2)],
                   traces_validated_against_impl=len(hists), step_kinds=kinds)
    ctx.cov['programs'] = len(hists)
    ctx.cov['disagreements_checked'] = len(hists)
    return vlib.finish(ctx, level='translation_validation')
