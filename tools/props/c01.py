"""C01 — emitted MIR is closed, scoped, acyclic."""
import vlib
import targeted
from props import mirprop as mp


def run(ctx):
    ok_x = vlib.step_extract(ctx)
    ok_p = vlib.step_prove(ctx) if ok_x else False
    n = 300 if ctx.tier == "quick" else 6000
    tg = targeted.all_families()
    progs, results, bad = mp.run_programs(ctx, n, tg, {"C01": mp.on_mir("C01b"), "noscope": mp.on_mir("C01b_noscope")})
    ctx.note(f"validate: C01b evaluated in Coq on {sum(1 for r in results if 'ok' in r)} implementation MIRs: "
             f"{len(bad['C01'])} violating ({len(bad['noscope'])} beyond the scoping clause)")
    for i in bad["C01"]:
        p, r = progs[i], results[i]
        if i not in bad["noscope"] and mp.captures_enclosing_param(p["stmts"]):
            key = "C01/scope:param-of-enclosing-fn"
        else:
            key = "C01/mir:" + ("closure-or-cycle" if i in bad["noscope"] else "foreign-argref")
        vlib.report_failure(ctx, key, "the MIR of this program violates C01 (Spec/MirSpec.v C01b)", mp.replay_payload(p, r))
    if ok_x:
        dis = mp.tie_model(ctx, progs, results)
        if dis is not None:
            ctx.note(f"tie: model vs implementation on {len(progs)} programs: {len(dis)} disagree")
            ctx.cov["model_impl_disagreements"] = len(dis)
            if dis:
                ctx.broken.append(dict(kind="correspondence", what="model and implementation disagree",
                                       detail=mp.surface.to_python(progs[dis[0]])))
    mp.standard_cov(ctx, progs, results, len(tg))
    return vlib.finish(ctx)
