"""C15 — the abstract interpreter agrees with the real DSL on types and values."""
import json
import os
import random

import vlib
from vlib import gstr, gz, glist

GM = {"Const": "MConst", "Public": "MPublic", "Secret": "MSecret"}
GB = {"Int": "BInt", "Bool": "BBool"}
ARITH = ["OAdd", "OSub", "OMul"]
CMP = ["OLt", "OLe", "OGt", "OGe", "OEq", "ONe"]


def gen_expr(rng, depth, ninputs, want="Int"):
    if depth == 0 or rng.random() < 0.2:
        if want == "Int":
            if rng.random() < 0.25:
                return ["lit", rng.choice([0, 1, -1, 7, 2 ** 64 + 1, -(2 ** 90)])]
            return ["in", rng.choice(["Public", "Secret"]), "Int", rng.randrange(ninputs)]
        return ["bin", rng.choice(CMP), gen_expr(rng, 0, ninputs), gen_expr(rng, 0, ninputs)]
    if want == "Bool":
        return ["bin", rng.choice(CMP), gen_expr(rng, depth - 1, ninputs), gen_expr(rng, depth - 1, ninputs)]
    r = rng.random()
    if r < 0.7:
        return ["bin", rng.choice(ARITH), gen_expr(rng, depth - 1, ninputs), gen_expr(rng, depth - 1, ninputs)]
    if r < 0.95:
        return ["if", gen_expr(rng, depth - 1, ninputs, "Bool"), gen_expr(rng, depth - 1, ninputs), gen_expr(rng, depth - 1, ninputs)]
    # deliberately ill-typed
    return ["bin", rng.choice(ARITH), gen_expr(rng, depth - 1, ninputs, "Bool"), gen_expr(rng, depth - 1, ninputs)]


def g_expr(e):
    k = e[0]
    if k == "in":
        return f"(AIn ({GM[e[1]]}, {GB[e[2]]}) {e[3]})"
    if k == "lit":
        return f"(ALit {gz(e[1])})"
    if k == "bin":
        return f"(ABin {e[1]} {g_expr(e[2])} {g_expr(e[3])})"
    return f"(AIf {g_expr(e[1])} {g_expr(e[2])} {g_expr(e[3])})"


def g_abs(o):
    if isinstance(o, list):
        return f"(IAbsValue {gstr(o[0])} {'None' if o[1] is None else '(Some ' + gz(o[1]) + ')'})"
    return "IAbsOther"


def run(ctx):
    ok_x = vlib.step_extract(ctx)
    ok_p = vlib.step_prove(ctx) if ok_x else False
    rng = random.Random(ctx.seed)
    n = 300 if ctx.tier == "quick" else 5000
    exprs, vals = [], []
    for _ in range(n):
        ni = rng.choice([1, 2, 3])
        exprs.append(gen_expr(rng, rng.choice([1, 2, 3, 4, 5]), ni))
        vals.append([rng.choice([0, 1, -1, 5, -7, 2 ** 53 + 1, -(2 ** 64), 3 ** 60, rng.getrandbits(200) - 2 ** 199]) for _ in range(ni)])
    rc, out, err, dt = vlib.run([vlib.PY, os.path.join(vlib.VERIF, "tools", "impl_abstract.py")], 900, cwd="/", env=vlib.impl_env(),
                                input=json.dumps({"exprs": exprs, "valuations": vals}))
    if rc != 0:
        raise RuntimeError("impl_abstract.py failed: " + vlib.clean_noise(err)[-1500:])
    data = json.loads(out[out.index("{"):])
    # ---- the property on the implementation: types (table) and values (expressions)
    tviol = []
    for row in data["table"]:
        realo, abso = row[-2], row[-1]
        op = row[0]
        tys = row[1:-2]
        if op in ("OEq", "ONe") and all(t[1] == "Bool" for t in tys):
            continue                      # == / != are modelled on integers only
        if realo is not None and not realo.startswith("non-nada"):
            if not (isinstance(abso, list) and abso[0] == realo):
                tviol.append(row)
    for row in tviol[:10]:
        vlib.report_failure(ctx, "C15/type:" + json.dumps(row[:-2]), f"the real DSL gives {row[-2]}, the abstract interpreter {row[-1]}",
                            dict(case=dict(kind="type-tuple", cell=row[:-2]), real=row[-2], abstract=row[-1],
                                 how_to_replay="tools/impl_abstract.py with an empty expression list prints the table"))
    head = ("From Coq Require Import ZArith List String Bool.\nFrom NadaV.PyMini Require Import PyMini.\n"
            "From NadaV.Model Require Import Rules AbsRules.\nImport ListNotations.\nOpen Scope string_scope.\n"
            "Inductive iabs := IAbsValue (cls : string) (v : option Z) | IAbsOther.\n"
            "Fixpoint bad {A} (f : A -> bool) (l : list A) (i : Z) : list Z := match l with [] => [] | x :: r => if f x then i :: bad f r (i + 1)%Z else bad f r (i + 1)%Z end.\n"
            "Definition value_agrees (v : option value) (z : option Z) : bool := match v, z with Some x, Some y => match zval x with Some x' => Z.eqb x' y | None => false end | None, None => true | _, _ => false end.\n")
    cases = glist([f"({g_expr(e)}, {glist([gz(v) for v in val])}, {g_abs(o['abs'])}, {'Some ' + gstr(o['real']) if o['real'] else 'None'})"
                   for e, val, o in zip(exprs, vals, data["exprs"])])
    # spec: if the abstract run produced a value, it is the exact evaluation
    text = head + f"Definition cases : list (aexpr * list Z * iabs * option string) := {cases}.\n" + \
        ("Eval vm_compute in (bad (fun c : aexpr * list Z * iabs * option string => let '(e, rho, a, r) := c in "
         "match a with IAbsValue cls (Some z) => negb (value_agrees (exact_eval rho e) (Some z)) "
         "| IAbsValue cls None => match exact_eval rho e with Some _ => true | None => false end "     # every input has a value: so must the result
         "| _ => false end) cases 0%Z).\n")
    rc, o, e2, dt = vlib.eval_cases(ctx, "c15_spec", text)
    if rc != 0:
        raise RuntimeError("cases c15_spec failed: " + (o + e2)[-1200:])
    vviol = vlib.parse_zlist(vlib.parse_evals(o)[0])
    nvalues = sum(1 for x in data["exprs"] if isinstance(x["abs"], list) and x["abs"][1] is not None)
    ctx.note(f"validate: type table {len(data['table'])} cells: {len(tviol)} disagree; {len(exprs)} expressions x valuations "
             f"({nvalues} abstract values) against exact evaluation in Coq: {len(vviol)} wrong")
    # ... and, values supplied or not, its class is the class the real DSL gives the same expression
    cviol = [i for i, o in enumerate(data["exprs"])
             if o["real"] and not o["real"].startswith("non-nada") and not (isinstance(o["abs"], list) and o["abs"][0] == o["real"])]
    ctx.note(f"validate: {len(cviol)} of {sum(1 for o in data['exprs'] if o['real'])} expressions the real DSL accepts get another class (or none) under the abstract classes with concrete values")
    for i in cviol[:5]:
        vlib.report_failure(ctx, "C15/type-with-values", f"the real DSL types {exprs[i]} as {data['exprs'][i]['real']}, abstract execution with values {vals[i]} gives {data['exprs'][i]['abs']}",
                            dict(case=dict(kind="expression", expr=exprs[i], valuation=[str(v) for v in vals[i]]), observed=data["exprs"][i]))
    for i in vviol[:5]:
        vlib.report_failure(ctx, "C15/value", f"abstract value differs from exact evaluation: {exprs[i]} with {vals[i]} -> {data['exprs'][i]['abs']}",
                            dict(case=dict(kind="expression", expr=exprs[i], valuation=[str(v) for v in vals[i]]), observed=data["exprs"][i]))
    if ok_x:
        text = head + "From NadaV.Gen Require GenScalar.\nFrom NadaV.Gen Require Import GenAbstract.\n" + \
            f"Definition cases : list (aexpr * list Z * iabs * option string) := {cases}.\n" + \
            ("Eval vm_compute in (bad (fun c : aexpr * list Z * iabs * option string => let '(e, rho, a, r) := c in "
             "negb (match abs_eval GA rho e, a with "
             "| AValue t v, IAbsValue cls z => String.eqb (class_of t) cls && value_agrees v z "
             "| AReject _, IAbsOther => true | ANonAbstract _, IAbsOther => true | _, _ => false end "
             "&& match real_type GenScalar.G e, r with Some t, Some cls => String.eqb (class_of t) cls | None, None => true | _, _ => false end)) cases 0%Z).\n")
        rc, o, e2, dt = vlib.eval_cases(ctx, "c15_model", text)
        if rc != 0:
            ctx.broken.append(dict(kind="correspondence", what="model evaluation failed", detail=(o + e2)[-1000:]))
        else:
            mism = vlib.parse_zlist(vlib.parse_evals(o)[0])
            ctx.note(f"tie: PyMini over both generated libraries vs both real libraries on {len(exprs)} expressions: {len(mism)} disagree")
            ctx.cov["model_impl_disagreements"] = len(mism)
            if mism:
                ctx.broken.append(dict(kind="correspondence", what="model and implementation disagree on expressions",
                                       detail=json.dumps([[exprs[i], [str(v) for v in vals[i]], data["exprs"][i]] for i in mism[:3]])))
    ctx.cov.update(evaluations=len(data["table"]) + len(exprs), distinct_nontrivial=nvalues,
                   rule="exhaustive type table (9 operators x 36 pairs + if_else x 216 triples over the six shared classes) on both real "
                        "libraries; random expressions (depth <= 5) over the modelled operators with big-integer valuations run under the "
                        "abstract classes; non-trivial = the abstract run produced a concrete value",
                   samples=[dict(expr=exprs[i], valuation=[str(v) for v in vals[i]], outcome=data["exprs"][i]) for i in range(3)],
                   traces_validated_against_impl=len(exprs))
    return vlib.finish(ctx)
