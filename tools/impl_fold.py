"""Real literal classes on literal pairs: stdin JSON [[base, x, y], ...] -> stdout JSON outcomes."""
import json
import sys
from nada_dsl import *   # noqa

CLS = {"Int": Integer, "UInt": UnsignedInteger, "Bool": Boolean}
NUM = {
    "OAdd": lambda a, b: a + b, "OSub": lambda a, b: a - b, "OMul": lambda a, b: a * b,
    "ODiv": lambda a, b: a / b, "OMod": lambda a, b: a % b, "OPow": lambda a, b: a ** b,
    "OLShift": lambda a, b: a << b, "ORShift": lambda a, b: a >> b,
    "OLt": lambda a, b: a < b, "OGt": lambda a, b: a > b, "OLe": lambda a, b: a <= b, "OGe": lambda a, b: a >= b,
    "OEq": lambda a, b: a == b, "ONe": lambda a, b: a != b}
BOOL = {"OAnd": lambda a, b: a & b, "OOr": lambda a, b: a | b, "OXor": lambda a, b: a ^ b,
        "OEq": lambda a, b: a == b, "ONe": lambda a, b: a != b}


def code(fn, a, b):
    try:
        r = fn(a, b)
    except Exception as e:   # noqa
        return ["R", type(e).__name__]
    if type(r) in (Integer, UnsignedInteger, Boolean):
        return ["F", type(r).__name__, int(r.value)]
    return ["N", type(r).__name__]


cases = json.load(sys.stdin)
out = []
for base, x, y, *rest in cases:
    huge = bool(rest)
    c = CLS[base]
    res = []
    if base == "Bool":
        for o, fn in BOOL.items():
            res.append([o, code(fn, c(bool(x)), c(bool(y)))])
    else:
        for o, fn in NUM.items():
            if o == "OPow" and not (0 <= y <= 40 and abs(x).bit_length() * y <= 2500 + (12000 if huge else 0)):
                continue
            if o in ("OLShift", "ORShift"):
                if not (0 <= y <= 1500):
                    continue
                res.append([o, code(fn, c(x), UnsignedInteger(y))])
                continue
            res.append([o, code(fn, c(x), c(y))])
    plain = []
    if base != "Bool":
        # the same operators with a plain Python number written on the left (x op T(y))
        for o, fn in NUM.items():
            if o in ("OPow", "OLShift", "ORShift") and not (0 <= y <= 40 and abs(x).bit_length() * max(y, 1) <= 2500):
                continue
            plain.append([o, code(fn, x, UnsignedInteger(y) if o in ("OLShift", "ORShift") else c(y))])
    out.append([base, x, y, res, plain])
sys.set_int_max_str_digits(0)      # only for printing the results: the DSL above ran under the interpreter's default limit
json.dump(out, sys.stdout)
