#!/bin/bash
# usage: process_seed3.sh <AREA> <i> [all]  -- third round: the sub-agent names the violated properties in notes.txt
A=$1; i=$2
sd=/tmp/seed14-$A-$i; wt=/tmp/wt14-$A
[ -f $sd/patch.diff ] || { echo "$A-$i: no patch"; exit 0; }
c=$(bash /verif/tools/confirm_seed.sh $wt $sd 2>&1 | tail -1)
props=$(head -1 $sd/notes.txt | grep -o "C[0-9][0-9]" | sort -u | tr '\n' ' ')
echo "== $A-$i [$props] confirm: $c"
if [ "$3" = "all" ]; then props="C01 C02 C03 C04 C05 C06 C07 C08 C09 C10 C11 C12 C13 C14 C15 C16 C17 C18 C19"; fi
for p in $props; do
  out=$(bash /verif/tools/try_seed.sh $sd/patch.diff $p quick 12 2>&1)
  nv=$(echo "$out" | grep -c "^VIOLATION")
  nf=$(echo "$out" | grep "^VIOLATION" | grep -vc "no-failing-input-found")
  echo "   $p: violations=$nv with-input=$nf $(echo "$out" | grep -o 'check exit=[0-9]*')"
done
