"""Structured big-integer pairs for the folding checks (one PRNG, replayable)."""
import random


def interesting(rng):
    k = rng.choice([0, 1, 2, 3, 8, 31, 52, 53, 54, 62, 63, 64, 65, 127, 128, 255, 256, 511, 1000, 1023, 1024, 1025, 1100])
    kind = rng.randrange(6)
    if kind == 0:
        v = 1 << k
    elif kind == 1:
        v = (1 << k) - 1
    elif kind == 2:
        v = (1 << k) + 1
    elif kind == 3:
        v = rng.getrandbits(k + 1)
    elif kind == 4:
        v = rng.randrange(0, 20)
    else:
        v = (1 << k) + rng.getrandbits(max(1, k // 2))
    return v


def pairs(seed, n):
    rng = random.Random(seed)
    out = []
    fixed = [(-7, 2), (7, -2), (-7, -2), (7, 2), (2 ** 60 + 1, 1), (10 ** 400, 3), (0, 5), (5, 0), (0, 0),
             (2 ** 53 + 1, 1), (-(2 ** 53) - 1, 1), (2 ** 1024, 1), (2 ** 1024 - 1, 1), (3 * 2 ** 1070, 2 ** 50),
             (2 ** 64, 2 ** 64 - 1), (1, 2), (-1, 2), (1, -2), (9007199254740993, 3), (-9, 3), (10, 4)]
    for x, y in fixed:
        out.append(["Int", x, y])
        if x >= 0 and y >= 0:
            out.append(["UInt", x, y])
    while len(out) < n:
        r = rng.random()
        x, y = interesting(rng), interesting(rng)
        if rng.random() < 0.35:            # exact multiples
            x = y * interesting(rng) if y else x
        if rng.random() < 0.25:
            y = rng.randrange(0, 70)       # small exponents / shift counts / divisors
        if r < 0.55:
            sx, sy = rng.choice([1, -1]), rng.choice([1, -1])
            out.append(["Int", sx * x, sy * y])
        elif r < 0.9:
            out.append(["UInt", x, y])
        else:
            out.append(["Bool", rng.randrange(2), rng.randrange(2)])
    return out
