"""C18: nada_dsl.audit.signature(source) on a list of source texts, one after the other in THIS process
(so that state surviving from one call to the next would show).
stdin: JSON list of texts; stdout: JSON list of {"sig": {parties, inputs, outputs}} | {"exc": ..}."""
import json
import signal
import sys

from nada_dsl.audit import signature


class Timeout(Exception):
    pass


def on_alarm(s, f):
    raise Timeout()


signal.signal(signal.SIGALRM, on_alarm)


def cname(x):
    return x.__name__ if isinstance(x, type) else (type(x).__name__ if x is not None else None)


HELD = []      # the results as the caller received them, read again after all the later calls


def render(ps, ins, outs):
    return {"parties": [p.name for p in ps],
            "inputs": [[i.name, i.party.name, cname(getattr(i, "_type", None))] for i in ins],
            "outputs": [[o.name, o.party.name, cname(o.value)] for o in outs]}


def run_one(src):
    signal.alarm(10)
    try:
        ps, ins, outs = signature(src)
        rec = {"sig": render(ps, ins, outs)}
        HELD.append((rec, ps, ins, outs))
        return rec
    except Timeout:
        return {"exc": "Timeout", "msg": ""}
    except BaseException as e:      # noqa
        return {"exc": type(e).__name__, "msg": str(e)[:200]}
    finally:
        signal.alarm(0)


results = [run_one(t) for t in json.load(sys.stdin)]
for rec, ps, ins, outs in HELD:
    try:
        late = render(ps, ins, outs)
    except BaseException as e:      # noqa
        late = {"exc": type(e).__name__}
    if late != rec["sig"]:
        rec["sig_after_later_calls"] = late
print(json.dumps(results))
