"""C19: programs compiled from files, one MIR element per line, with the expected line of every element."""


class Tour:
    def __init__(self, name):
        self.name = name
        self.lines = []
        self.expect = []       # (kind, key, line set)

    def L(self, text, **marks):
        self.lines.append(text)
        n = len(self.lines)
        for kind, keys in marks.items():
            for key in (keys if isinstance(keys, (list, tuple)) else [keys]):
                self.expect.append((kind, key, n))
        return n

    def text(self, eol="\n", trailing=True):
        return eol.join(self.lines) + (eol if trailing else "")


def tour_main():
    t = Tour("tour")
    t.L("from nada_dsl import *")
    t.L("")
    t.L("def nada_main():")
    t.L("    p = Party(name='P0')", party="P0")
    t.L("    q = Party(name='P1')", party="P1")
    t.L("    a = SecretInteger(Input(name='a', party=p))", input="a")
    t.L("    b = SecretInteger(Input(name='b', party=q))", input="b")
    t.L("    u = PublicUnsignedInteger(Input(name='u', party=p))", input="u")
    t.L("    c = PublicBoolean(Input(name='c', party=p))", input="c")
    t.L("    arr = Array(SecretInteger(Input(name='arr', party=p)), size=3)", input="arr")
    t.L("    s1 = a + b", op="Addition")
    t.L("    s2 = a - b", op="Subtraction")
    t.L("    s3 = a * b", op="Multiplication")
    t.L("    s4 = a / b", op="Division")
    t.L("    s5 = a % b", op="Modulo")
    t.L("    s6 = a << u", op="LeftShift")
    t.L("    s7 = a >> u", op="RightShift")
    t.L("    s8 = a < b", op="LessThan")
    t.L("    s9 = a > b", op="GreaterThan")
    t.L("    s10 = a <= b", op="LessOrEqualThan")
    t.L("    s11 = a >= b", op="GreaterOrEqualThan")
    t.L("    s12 = a == b", op="Equals")
    t.L("    s13 = a != b", op="NotEquals")
    t.L("    s14 = s8 & s9", op="BooleanAnd")
    t.L("    s15 = s8 | s9", op="BooleanOr")
    t.L("    s16 = s8 ^ s9", op="BooleanXor")
    t.L("    s17 = ~s8", op="Not")
    t.L("    s18 = s8.if_else(a, b)", op="IfElse")
    t.L("    s19 = a.to_public()", op="Reveal")
    t.L("    s20 = a.trunc_pr(u)", op="TruncPr")
    t.L("    s21 = a.public_equals(b)", op="PublicOutputEquality")
    t.L("    s22 = SecretInteger.random()", op="Random")
    t.L("    s23 = u ** u", op="Power")
    t.L("    k = Integer(41)", literal="41")
    t.L("    k2 = Integer(20) + Integer(22)", literal=["20", "22", "42"])
    t.L("    z = arr.zip(arr)", op="Zip")
    t.L("    uz = unzip(z)", op="Unzip")
    t.L("    ip = arr.inner_product(arr)", op="InnerProduct")
    t.L("    nt = NTuple.new([a, arr])", op_at="New")
    t.L("    e0 = nt[0]", op="NTupleAccessor")
    t.L("    ob = Object.new({'f': a})", op_at="New")
    t.L("    e1 = ob.f", op="ObjectAccessor")
    dl = t.L("    @nada_fn")
    t.L("    def inc(x: SecretInteger) -> SecretInteger:")
    t.expect.append(("function", "inc", (dl, dl + 1)))
    t.L("        return x * k", op_at="Multiplication")
    t.L("    m = arr.map(inc)", op="Map")
    dl = t.L("    @nada_fn")
    t.L("    def add(acc: SecretInteger, x: SecretInteger) -> SecretInteger:")
    t.expect.append(("function", "add", (dl, dl + 1)))
    t.L("        return acc + x", op_at="Addition")
    t.L("    r = m.reduce(add, a)", op="Reduce")
    t.L("    cl = inc(b)", op="NadaFunctionCall")
    t.L("    tot = sum([s1, s2])", op_at="Addition", literal="0")
    t.L("    tot2 = 5 + s3", op_at="Addition", literal="5")
    t.L("    o1 = Output(s1 + s2 + s3 + s4 + s5 + s6 + s7 + s18 + s20 + s22 + ip + e0 + e1 + r + cl + tot + tot2 + k + k2, 'o1', p)", output="o1", op_at="Addition")
    t.L("    o2 = Output(s10.if_else(a, b) + s11.if_else(a, b) + s12.if_else(a, b) + s13.if_else(a, b) + s14.if_else(a, b) + s15.if_else(a, b) + s16.if_else(a, b) + s17.if_else(a, b) + s21.if_else(a, b), 'o2', q)", output="o2", op_at=["Addition", "IfElse"])
    t.L("    o3 = Output(s19, 'o3', p)", output="o3")
    t.L("    o4 = Output(s23, 'o4', p)", output="o4")
    t.L("    o5 = Output(uz, 'o5', q)", output="o5")
    t.L("    return [o1, o2, o3, o4, o5]")
    return t


def tour_edges():
    """operation on the first line and on the last line (no trailing newline), module level"""
    t = Tour("edges")
    t.L("from nada_dsl import *; p = Party(name='P0')", party="P0")
    t.L("a = SecretInteger(Input(name='a', party=p))", input="a")
    t.L("b = SecretInteger(Input(name='b', party=p))", input="b")
    t.L("def nada_main():")
    t.L("    return OUTS")
    t.L("OUTS = [Output(a * b, 'o', p)]", output="o", op="Multiplication")
    return t


def tour_implicit_fn():
    """plain Python functions passed to map / reduce are wrapped implicitly"""
    t = Tour("implicit")
    t.L("from nada_dsl import *")
    t.L("def nada_main():")
    t.L("    p = Party(name='P0')", party="P0")
    t.L("    arr = Array(SecretInteger(Input(name='arr', party=p)), size=3)", input="arr")
    t.L("    a = SecretInteger(Input(name='a', party=p))", input="a")
    t.L("    def dbl(x: SecretInteger) -> SecretInteger:")
    t.L("        return x + x", op="Addition")
    ml = t.L("    m = arr.map(dbl)", op="Map")
    t.expect.append(("function", "dbl", (ml,)))
    t.L("    def acc(s: SecretInteger, x: SecretInteger) -> SecretInteger:")
    t.L("        return s - x", op="Subtraction")
    rl = t.L("    r = m.reduce(acc, a)", op="Reduce")
    t.expect.append(("function", "acc", (rl,)))
    t.L("    return [Output(r, 'o', p)]", output="o")
    return t


def tour_two_files():
    """elements created alternately in the main file and in an imported helper module"""
    t = Tour("twofiles")
    t.L("from nada_dsl import *")
    t.L("from c19_helper_module import helper_mul, helper_input")
    t.L("")
    t.L("def nada_main():")
    t.L("    p = Party(name='P0')", party="P0")
    t.L("    a = SecretInteger(Input(name='a', party=p))", input="a")
    t.L("    h = helper_input(p)")
    t.L("    s = a - h", op="Subtraction")
    t.L("    m = helper_mul(s, a)")
    t.L("    r = m + a + h", op_at="Addition")
    t.L("    return [Output(r, 'o', p)]", output="o")
    return t


HELPER_MODULE = ("from nada_dsl import *\n\n\n# a helper module of the user's program\n"
                 "def helper_input(p):\n    return SecretInteger(Input(name='helper_in', party=p))\n\n\n"
                 "def helper_mul(x, y):\n    return x * y\n")


def tour_same_literal_twice():
    """the same small literal written on two lines: each Literal operation is attributed to its own line"""
    t = Tour("same-literal-twice")
    t.L("from nada_dsl import *")
    t.L("")
    t.L("def nada_main():")
    t.L("    p = Party(name='P0')", party="P0")
    t.L("    a = SecretInteger(Input(name='a', party=p))", input="a")
    t.L("    b = SecretInteger(Input(name='b', party=p))", input="b")
    t.L("    x = a + Integer(1)", op="Addition", literal="1")
    t.L("    y = b * Integer(1)", op="Multiplication", literal="1")
    t.L("    z = y - UnsignedInteger(1).to_public() if False else y - Integer(1)", op="Subtraction", literal="1")
    t.L("    return [Output(x + z, 'o', p)]", output="o", op_at="Addition")
    return t


def tour_non_bmp():
    """characters outside the Basic Multilingual Plane (an emoji in a comment, a mathematical letter in a name):
    offsets and lengths count characters of the embedded text"""
    t = Tour("non-bmp-characters")
    t.L("from nada_dsl import *")
    t.L("# \U0001F642 totals for the \U0001D538-team")
    t.L("")
    t.L("def nada_main():")
    t.L("    p = Party(name='\U0001D538lice')", party="\U0001D538lice")
    t.L("    a = SecretInteger(Input(name='a', party=p, doc='\U0001F4B0 amount'))", input="a")
    t.L("    b = SecretInteger(Input(name='b', party=p))  # \U0001F642", input="b")
    t.L("    s = a + b", op="Addition")
    t.L("    m = s * a  # \U0001F680\U0001F680", op="Multiplication")
    t.L("    return [Output(m, 'o', p)]", output="o")
    return t


def tour_folded_literals():
    """literals folded from constants declared on other lines: the folded literal is created where the fold is written"""
    t = Tour("folded-literals")
    t.L("from nada_dsl import *")
    t.L("")
    t.L("SCALE = Integer(1000)")
    t.L("STEP = UnsignedInteger(4)")
    t.L("")
    t.L("def nada_main():")
    t.L("    p = Party(name='P0')", party="P0")
    t.L("    a = SecretInteger(Input(name='a', party=p))", input="a")
    t.L("    u = SecretUnsignedInteger(Input(name='u', party=p))", input="u")
    t.L("    k = SCALE + Integer(24)", literal="1024")
    t.L("    x = a * k", op="Multiplication")
    t.L("    j = SCALE * Integer(2) - Integer(1)", literal="1999")
    t.L("    y = x + j", op="Addition")
    t.L("    w = STEP << UnsignedInteger(1)", literal="8")
    t.L("    v = u - w", op="Subtraction")
    t.L("    return [Output(y, 'o', p), Output(v, 'q', p)]", output=("o", "q"))
    return t


# a program whose operations are created in two helper files that share their base name (two packages)
PK_MAIN = ("from nada_dsl import *\nfrom pkga import add_a\nfrom pkgb import mul_b\n\n\ndef nada_main():\n    p = Party(name='P0')\n"
           "    a = SecretInteger(Input(name='a', party=p))\n    b = SecretInteger(Input(name='b', party=p))\n"
           "    x = add_a(a, b)\n    y = mul_b(x, b)\n    return [Output(y, 'o', p)]\n")
EXTRA_FILES = {"two-helper-files-one-base-name": {
    "pkga/__init__.py": "from nada_dsl import *\n\n# a comment line that shifts the offsets of this file\ndef add_a(u, v):\n    return u + v\n",
    "pkgb/__init__.py": "from nada_dsl import *\n\ndef mul_b(u, v):\n    return u * v\n"}}
# the text each operation's reference must delimit (whatever file table the MIR uses to say so)
EXPECT_SLICES = {"two-helper-files-one-base-name": {"Addition": "    return u + v", "Multiplication": "    return u * v"}}


def tour_pk():
    t = Tour("two-helper-files-one-base-name")
    for k, line in enumerate(PK_MAIN.rstrip("\n").split("\n")):
        marks = {}
        if "Party(" in line: marks = {"party": "P0"}
        if "name='a'" in line: marks = {"input": "a"}
        if "name='b'" in line: marks = {"input": "b"}
        if "Output(" in line: marks = {"output": "o"}
        t.L(line, **marks)
    return t


def all_cases():
    """(name, directory name, file name, text, tour)"""
    m, e, i = tour_main(), tour_edges(), tour_implicit_fn()
    return [
        ("tour-lf", "progs", "tour.py", m.text(), m),
        ("tour-no-trailing-newline", "progs", "tour2.py", m.text(trailing=False), m),
        ("edges-first-and-last-line", "progs", "edges.py", e.text(trailing=False), e),
        ("implicit-nada-fn", "progs", "implicit.py", i.text(), i),
        ("tour-crlf", "progs", "tour_crlf.py", m.text(eol="\r\n"), m),
        ("dir-named-like-the-package", "my_nada_dsl_programs", "tour3.py", m.text(), m),
        ("file-named-like-the-package", "progs", "nada_dsl_tour.py", m.text(), m),
        ("two-files", "progs2", "c19_main.py", tour_two_files().text(), tour_two_files()),
        # characters that str.splitlines() treats as line boundaries and Python's line numbering does not, in a comment on line 1
        ("tour-other-separators", "progs", "tour_sep.py",
         m.text().replace("\n", "  # separators: \x0c \x0b \x1c \x1d \x1e \x85 \u2028 \u2029 end\n", 1), m),
        # a file saved as UTF-8 with a byte order mark
        ("tour-bom", "progs", "tour_bom.py", "\ufeff" + m.text(), m),
        # blanks and tabs at the end of lines: a reference still delimits the whole line
        ("tour-trailing-whitespace", "progs", "tour_ws.py",
         "\n".join((l + ("   " if k % 2 else " \t")) if l.strip() else l for k, l in enumerate(m.text().split("\n"))), m),
        ("same-literal-twice", "progs", "lit2.py", tour_same_literal_twice().text(), tour_same_literal_twice()),
        ("two-helper-files-one-base-name", "progs3", "c19_pk_main.py", PK_MAIN, tour_pk()),
        ("folded-literals", "progs", "folded.py", tour_folded_literals().text(), tour_folded_literals()),
        ("non-bmp-characters", "progs", "nonbmp.py", tour_non_bmp().text(), tour_non_bmp()),
    ]
