"""Generate surface programs, run the implementation on each (fresh process per program),
and evaluate Coq functions over (program, implementation outcome) pairs."""
import concurrent.futures
import json
import os
import shutil
import tempfile

import vlib
import surface
import mirprint


def generate(seed, n, sizes=(3, 25)):
    g = surface.Gen(seed)
    progs = []
    for i in range(n):
        size = g.rng.randrange(sizes[0], sizes[1])
        progs.append(g.program(size))
    return progs


def run_impl(progs, texts=None, extra_env=None, workers=vlib.NCPU):
    """Returns list of result dicts ({"ok": mir} | {"exc":..}) in order."""
    d = tempfile.mkdtemp(prefix="nadaverif_")
    try:
        paths = []
        for i, p in enumerate(progs):
            path = os.path.join(d, f"prog_{i}.py")
            with open(path, "w", encoding="utf-8") as f:
                f.write(texts[i] if texts else p.get('text') or surface.to_python(p))
            paths.append(path)

        def one(path):
            for attempt in (0, 1):
                rc, out, err, dt = vlib.run([vlib.PY, os.path.join(vlib.VERIF, "tools", "run_one.py"), path],
                                            timeout=120, cwd=d, env=vlib.impl_env(extra_env))
                lines = [l for l in out.splitlines() if l.startswith("{")]
                if lines:
                    return json.loads(lines[-1])
            return {"exc": "HarnessFailure", "msg": vlib.clean_noise(err)[-300:], "phase": "harness"}
        with concurrent.futures.ThreadPoolExecutor(max_workers=workers) as ex:
            return list(ex.map(one, paths))
    finally:
        shutil.rmtree(d, ignore_errors=True)


HEAD = """From Coq Require Import ZArith List String.
From NadaV.PyMini Require Import PyMini.
From NadaV.Model Require Import Rules Corr Mir Surface Trace Compile.
Import ListNotations.
Open Scope string_scope.
"""


def eval_over_cases(ctx, name, extra_imports, progs, results, exprs, per_shard=40, need_prog=True):
    """cases : list (program * ioutcome); each expr is a Gallina function `list (program*ioutcome) -> list Z`
    returning failing local indices.  Returns {expr: [global indices]}; None on Coq failure."""
    shards = []
    n = len(progs)
    for s in range(0, n, per_shard):
        items = []
        for i in range(s, min(n, s + per_shard)):
            items.append(f"({surface.to_gallina(progs[i])},\n    {mirprint.g_ioutcome(results[i])})")
        text = HEAD + extra_imports + "Definition cases : list (program * ioutcome) :=\n  [" + ";\n   ".join(items) + "].\n"
        for e in exprs:
            text += f"Eval vm_compute in ({e} cases).\n"
        shards.append((s, f"{name}_{s}", text))
    out = {e: [] for e in exprs}
    errors = []
    with concurrent.futures.ThreadPoolExecutor(max_workers=vlib.NCPU) as ex:
        futs = {ex.submit(vlib.eval_cases, ctx, nm, t, 900): s for s, nm, t in shards}
        for f in concurrent.futures.as_completed(futs):
            s = futs[f]
            rc, o, err, dt = f.result()
            if rc != 0:
                errors.append((s, (o + err)[-1200:]))
                continue
            vals = vlib.parse_evals(o)
            for e, v in zip(exprs, vals):
                out[e] += [s + i for i in vlib.parse_zlist(v)]
    for e in out:
        out[e].sort()
    return out, errors
