"""C12: single-operation collection cases as (surface program, spec case)."""
import itertools
import random

from surface import S
import targeted as T
import mirprint
from vlib import gz, gstr, glist

ELTS = [S("Secret", "Int"), S("Public", "Int"), S("Secret", "UInt"), S("Public", "UInt"), S("Secret", "Bool"), S("Public", "Bool")]
NAME = {("Secret", "Int"): "SecretInteger", ("Public", "Int"): "Integer", ("Secret", "UInt"): "SecretUnsignedInteger",
        ("Public", "UInt"): "UnsignedInteger", ("Secret", "Bool"): "SecretBoolean", ("Public", "Bool"): "Boolean",
        ("Const", "Int"): "Integer", ("Const", "UInt"): "UnsignedInteger", ("Const", "Bool"): "Boolean"}


def mty(t):
    """MIR type (json) of a generator type"""
    if t[0] == "s":
        return NAME[(t[1], t[2])]
    if t[0] == "arr":
        return {"Array": {"inner_type": mty(t[1]), "size": t[2]}}
    if t[0] == "tup":
        return {"Tuple": {"left_type": mty(t[1]), "right_type": mty(t[2])}}
    if t[0] == "nt":
        return {"NTuple": {"types": [mty(x) for x in t[1]]}}
    if t[0] == "obj":
        return {"Object": {"types": {k: mty(x) for k, x in t[1]}}}
    raise ValueError(t)


def g(t):
    return mirprint.g_ty(mty(t))


class B:
    """small builder of programs with fresh inputs"""
    def __init__(self):
        self.st = []
        self.n = 0

    def value(self, t):
        """a variable of generator type t built from inputs"""
        self.n += 1
        x = f"v{self.n}"
        if t[0] == "s":
            if t[1] == "Const":
                self.st.append({"k": "lit", "x": x, "b": t[2], "v": 1})
            else:
                self.st.append(T.inp(x, f"in{self.n}", t))
            return x
        if t[0] == "arr" and t[1][0] == "s" and t[1][1] != "Const":
            self.st.append(T.inp(x, f"in{self.n}", t))
            return x
        if t[0] == "arr" and t[1][0] == "arr":
            self.st.append(T.inp(x, f"in{self.n}", t))
            return x
        if t[0] == "arr":                      # array of tuples etc.: Array.new of n copies
            e = self.value(t[1])
            self.st.append({"k": "arrnew", "x": x, "es": [e] * t[2]})
            return x
        if t[0] == "tup":
            a, b = self.value(t[1]), self.value(t[2])
            self.st.append({"k": "tupnew", "x": x, "a": a, "b": b})
            return x
        if t[0] == "nt":
            es = [self.value(e) for e in t[1]]
            self.st.append({"k": "ntnew", "x": x, "es": es})
            return x
        if t[0] == "obj":
            fs = [(k, self.value(e)) for k, e in t[1]]
            self.st.append({"k": "objnew", "x": x, "fs": fs})
            return x
        raise ValueError(t)

    def done(self, out, tags):
        return T.prog(self.st, [("o", "P0", out)], tags)


def cases(seed, tier):
    rng = random.Random(seed)
    out = []
    sizes = [0, 1, 2, 3, 7, 10 ** 6]
    elts = ELTS + [("arr", S("Secret", "Int"), 2), ("tup", S("Secret", "Int"), S("Public", "UInt"))]
    pairs = [(a, b) for a in elts for b in elts]
    size_pairs = [(n, m) for n in sizes for m in sizes]
    if tier == "quick":
        size_pairs = rng.sample(size_pairs, 6) + [(2, 3), (3, 3), (0, 0), (0, 1)]

    def arr(b, e, n, prov="input"):
        """an array variable of element type e and size n, built through provenance prov"""
        if e[0] == "tup" and n > 4:
            n = 2
        if prov == "input" or e[0] != "s" or e[1] == "Const":
            return b.value(("arr", e, n)), n
        if prov == "map":       # the result of a map: its element type is stored as a class
            src = b.value(("arr", S("Secret", "Int"), n))
            fn = f"f{len(b.st)}"
            b.st.append({"k": "def", "f": fn, "params": [("e", S("Secret", "Int"))], "ret": e,
                         "body": [T.inp(f"q{len(b.st)}", f"q{len(b.st)}", e)], "res": f"q{len(b.st)}", "form": "decorator"})
            x = f"m{len(b.st)}"
            b.st.append({"k": "map", "x": x, "a": src, "f": fn})
            return x, n
        if prov == "new":
            es = [b.value(e) for _ in range(max(n, 1))]
            x = f"n{len(b.st)}"
            b.st.append({"k": "arrnew", "x": x, "es": es})
            return x, max(n, 1)
        raise ValueError(prov)
    # inside a function body: an array parameter (which has no size) against a captured array of size m
    SI_ = S("Secret", "Int")
    for kind in ("zip", "inner"):
        for param_first in (True, False):
            for (ea, eb) in ((SI_, SI_), (SI_, S("Public", "Int"))):
                b = B()
                w, m = arr(b, eb, 3)
                a_in, _ = arr(b, ea, 3)
                q = T.inp("q", "q_in", SI_)
                body = [{"k": kind, "x": "z", "a": "row" if param_first else w, "b": w if param_first else "row"}, q]
                b.st.append({"k": "def", "f": "fz", "params": [("row", ("arr", ea, None))], "ret": SI_, "body": body, "res": "q", "form": "decorator"})
                b.st.append({"k": "call", "x": "r", "f": "fz", "args": [a_in], "kwargs": []})
                c = f"(CUnsized {'true' if kind == 'inner' else 'false'} {'true' if param_first else 'false'} {g(ea)} {g(eb)} {gz(m)})"
                out.append((b.done("r", [kind, "unsized-parameter"]), c))
    # every ordered pair of element types at one equal size, both operations
    for (ea, eb) in pairs:
        for kind in ("zip", "inner"):
            b = B()
            x, n2 = arr(b, ea, 2)
            y, m2 = arr(b, eb, 2)
            b.st.append({"k": kind, "x": "r", "a": x, "b": y})
            c = f"({'CZip' if kind == 'zip' else 'CInner'} {g(ea)} {g(eb)} {gz(n2)} {gz(m2)})"
            out.append((b.done("r", [kind]), c))
    # size pairs for a sample of element pairs
    for (ea, eb) in (pairs if tier != "quick" else rng.sample(pairs, 5) + [(ELTS[0], ELTS[0]), (ELTS[0], ELTS[2])]):
        for (n, m) in size_pairs:
            for kind in ("zip", "inner"):
                b = B()
                x, n2 = arr(b, ea, n)
                y, m2 = arr(b, eb, m)
                b.st.append({"k": kind, "x": "r", "a": x, "b": y})
                c = f"({'CZip' if kind == 'zip' else 'CInner'} {g(ea)} {g(eb)} {gz(n2)} {gz(m2)})"
                out.append((b.done("r", [kind]), c))
    # operand arrays of other provenances: map results, Array.new, zip results (compound elements)
    for (pa, pb) in [("map", "input"), ("input", "map"), ("map", "map"), ("new", "input"), ("map", "new")]:
        for (ea, eb) in [(ELTS[0], ELTS[4]), (ELTS[4], ELTS[0]), (ELTS[0], ELTS[0]), (ELTS[2], ELTS[3]), (ELTS[1], ELTS[5])]:
            for kind in ("zip", "inner"):
                b = B()
                x, n2 = arr(b, ea, 3, pa)
                y, m2 = arr(b, eb, 3, pb)
                b.st.append({"k": kind, "x": "r", "a": x, "b": y})
                c = f"({'CZip' if kind == 'zip' else 'CInner'} {g(ea)} {g(eb)} {gz(n2)} {gz(m2)})"
                out.append((b.done("r", [kind, pa, pb]), c))
    for pa in ("map", "input"):
        for comp in ("zip", "nested"):
            b = B()
            x, _ = arr(b, ELTS[0], 2, pa)
            if comp == "zip":
                u, _ = arr(b, ELTS[2], 2); v, _ = arr(b, ELTS[4], 2)
                b.st.append({"k": "zip", "x": "y", "a": u, "b": v})
                eb = ("tup", ELTS[2], ELTS[4])
            else:
                b.st.append(T.inp("y", "yy", ("arr", ("arr", ELTS[1], 3), 2)))
                eb = ("arr", ELTS[1], 3)
            b.st.append({"k": "zip", "x": "r", "a": x, "b": "y"})
            out.append((b.done("r", ["zip", pa, comp]), f"(CZip {g(ELTS[0])} {g(eb)} {gz(2)} {gz(2)})"))
            b2 = B()
            x, _ = arr(b2, ELTS[0], 2, pa)
            if comp == "zip":
                u, _ = arr(b2, ELTS[2], 2); v, _ = arr(b2, ELTS[4], 2)
                b2.st.append({"k": "zip", "x": "y", "a": u, "b": v})
            else:
                b2.st.append(T.inp("y", "yy", ("arr", ("arr", ELTS[1], 3), 2)))
            b2.st.append({"k": "zip", "x": "r", "a": "y", "b": x})
            out.append((b2.done("r", ["zip", comp, pa]), f"(CZip {g(eb)} {g(ELTS[0])} {gz(2)} {gz(2)})"))
    # unzip / map
    for (ea, eb) in pairs[:12]:
        n = rng.choice([1, 2, 3])
        b = B()
        x, n2 = arr(b, ea, n); y, _ = arr(b, eb, n2)
        b.st.append({"k": "zip", "x": "z", "a": x, "b": y}); b.st.append({"k": "unzip", "x": "r", "a": "z"})
        out.append((b.done("r", ["unzip"]), f"(CUnzip {g(ea)} {g(eb)} {gz(n2)})"))
    for ea in ELTS:
        for ret in ELTS[:4]:
            n = rng.choice([1, 3, 7])
            b = B()
            x = b.value(("arr", ea, n))
            b.st.append({"k": "def", "f": "f", "params": [("e", ea)], "ret": ret,
                         "body": [T.inp("q", "q", ret)], "res": "q", "form": "decorator"})
            b.st.append({"k": "map", "x": "r", "a": x, "f": "f"})
            out.append((b.done("r", ["map"]), f"(CMap {g(ea)} {g(ret)} {gz(n)})"))
    # Array.new
    news = [[], [ELTS[0]], [ELTS[0]] * 3, [ELTS[0], ELTS[1]], [ELTS[0], ELTS[2]], [ELTS[4], ELTS[4]],
            [("arr", ELTS[0], 2), ("arr", ELTS[0], 2)], [("arr", ELTS[0], 2), ("arr", ELTS[4], 3)],
            [("arr", ELTS[0], 2), ("arr", ELTS[0], 3)], [("tup", ELTS[0], ELTS[1])] * 2,
            [S("Const", "Int"), S("Const", "Int")], [S("Const", "Int"), S("Public", "Int")]]
    for tys in news:
        b = B()
        es = [b.value(t) for t in tys]
        b.st.append({"k": "arrnew", "x": "r", "es": es})
        out.append((b.done("r", ["new"]), f"(CNew {glist([g(t) for t in tys])})"))
    # a literal and a public value of the same base type: different types of the DSL (their MIR names coincide)
    for base in ("Int", "UInt", "Bool"):
        for order in ((("Const", base), ("Public", base)), (("Public", base), ("Const", base)), (("Public", base), ("Public", base), ("Const", base))):
            b = B()
            tys = [S(m, bb) for m, bb in order]
            es = [b.value(t) for t in tys]
            b.st.append({"k": "arrnew", "x": "r", "es": es})
            out.append((b.done("r", ["new", "literal-and-public"]), f"(CNewLiteralAndPublic {glist([g(t) for t in tys])})"))
    # n-tuple index
    nts = [[ELTS[0]], [ELTS[0], ELTS[3], ELTS[4]], [ELTS[1], ("arr", ELTS[0], 2), S("Const", "Int")],
           [("nt", [ELTS[0], ELTS[1]]), ("obj", [("a", ELTS[2])])]]
    for tys in nts:
        n = len(tys)
        for i in range(-n - 1, n + 2):
            b = B()
            x = b.value(("nt", tys))
            b.st.append({"k": "idx", "x": "r", "a": x, "i": i})
            out.append((b.done("r", ["index"]), f"(CIndex {glist([g(t) for t in tys])} {gz(i)})"))
    # the same with the index written as a Python boolean (bool is an int: t[True] is t[1]); the position recorded in
    # the MIR must still be a position, 0..n-1
    import surface as _surface
    for tys in nts[1:2]:
        for i, spelt in ((1, "True"), (0, "False"), (1, "bool(7)")):
            b = B()
            x = b.value(("nt", tys))
            b.st.append({"k": "idx", "x": "r", "a": x, "i": i})
            pr = b.done("r", ["index", "index-written-as-bool"])
            text = _surface.to_python(pr)
            assert f"r = {x}[{i}]" in text, text
            pr["text"] = text.replace(f"r = {x}[{i}]", f"r = {x}[{spelt}]")
            out.append((pr, f"(CIndex {glist([g(t) for t in tys])} {gz(i)})"))
    # the list / dict handed to NTuple.new / Object.new is changed by the caller afterwards: the collection is what it
    # was built from (two components, one field), so position 2 / field g do not exist
    SI2 = S("Secret", "Int")
    b = B()
    x1, x2 = b.value(SI2), b.value(SI2)
    b.st.append({"k": "ntnew", "x": "t", "es": [x1, x2]})
    b.st.append({"k": "bin", "x": "extra", "op": "OAdd", "a": x1, "b": x2})
    b.st.append({"k": "idx", "x": "r", "a": "t", "i": 2})
    pr = b.done("r", ["index", "list-changed-after-new"])
    text = _surface.to_python(pr)
    assert f"t = NTuple.new([{x1}, {x2}])" in text and "r = t[2]" in text, text
    pr["text"] = text.replace(f"t = NTuple.new([{x1}, {x2}])", f"lst = [{x1}, {x2}]\n    t = NTuple.new(lst)").replace("    r = t[2]", "    lst.append(extra)\n    r = t[2]")
    out.append((pr, f"(CIndex {glist([g(SI2), g(SI2)])} {gz(2)})"))
    b = B()
    x1, x2 = b.value(SI2), b.value(SI2)
    b.st.append({"k": "objnew", "x": "o", "fs": [("f", x1)]})
    b.st.append({"k": "fld", "x": "r", "a": "o", "f": "g"})
    pr = b.done("r", ["field", "dict-changed-after-new"])
    text = _surface.to_python(pr)
    assert "o = Object.new({'f': " + x1 + "})" in text and "r = o.g" in text, text
    pr["text"] = text.replace("o = Object.new({'f': " + x1 + "})", "dct = {'f': " + x1 + "}\n    o = Object.new(dct)").replace("    r = o.g", "    dct['g'] = " + x2 + "\n    r = o.g")
    out.append((pr, f"(CField {glist(['(' + gstr('f') + ', ' + g(SI2) + ')'])} {gstr('g')})"))
    # object fields
    objs = [[("a", ELTS[0])], [("a", ELTS[0]), ("b", ("arr", ELTS[1], 2)), ("c", S("Const", "Int"))],
            [("k1", ("nt", [ELTS[0]]))]]
    # field names that read like attributes a collection class has or might get (ninth seeding round): a declared
    # field is a field whatever its name (the names the classes do define today are in Model/Trace.v reserved_attr)
    ATTR_LIKE = ["size", "id", "name", "type", "length", "count", "keys", "items", "value", "index", "mode", "party",
                 "inner_type", "source_ref", "fields", "key", "args", "fn", "left", "right", "ty", "base_type", "elements", "shape"]
    objs.append([(nm, ELTS[j % 2]) for j, nm in enumerate(ATTR_LIKE[:12])])
    objs.append([(nm, ELTS[(j + 1) % 2]) for j, nm in enumerate(ATTR_LIKE[12:])])
    for fs in objs:
        for k in [k for k, _ in fs] + (["zz", "A", "__x__", "a_"] if len(fs) < 6 else ["sizes"]):
            b = B()
            x = b.value(("obj", fs))
            b.st.append({"k": "fld", "x": "r", "a": x, "f": k})
            gfs = glist([f"({gstr(kk)}, {g(t)})" for kk, t in fs])
            out.append((b.done("r", ["field"]), f"(CField {gfs} {gstr(k)})"))
    return out


def observe(res):
    """implementation outcome -> Gallina cobs"""
    if "ok" not in res:
        return f"(ORejected {gstr(res['exc'])})"
    m = res["ok"]
    o = m["outputs"][0]
    idx = "None"
    op = m["operations"].get(str(o["operation_id"]), {})
    if "NTupleAccessor" in op:
        ix = op['NTupleAccessor']['index']
        # a position is an integer: anything else in the JSON (true / false, a string, a float) is shown as -1000000
        idx = f"(Some {gz(ix if type(ix) is int else -1000000)})"
    return f"(OAccepted {mirprint.g_ty(o['type'])} {idx})"
