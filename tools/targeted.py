"""Per-property targeted program families (surface-program dicts)."""
from surface import S


def inp(x, name, t, party="P0", doc=""):
    return {"k": "input", "x": x, "name": name, "party": party, "doc": doc, "t": t}


SI, PI, SU, PU = S("Secret", "Int"), S("Public", "Int"), S("Secret", "UInt"), S("Public", "UInt")
SB, PB = S("Secret", "Bool"), S("Public", "Bool")


def prog(stmts, outs, tags=()):
    return {"stmts": stmts, "outs": outs, "tags": list(tags), "dead": False}


def nested_capture():
    """inner nada_fn uses the enclosing function's parameter (known finding C01/scope)"""
    inner = {"k": "def", "f": "inner", "params": [("y", SI)], "ret": SI,
             "body": [{"k": "bin", "x": "s", "op": "OAdd", "a": "y", "b": "x"}], "res": "s", "form": "decorator"}
    outer = {"k": "def", "f": "outer", "params": [("x", SI)], "ret": SI,
             "body": [inner, {"k": "call", "x": "c", "f": "inner", "args": ["x"], "kwargs": []}], "res": "c", "form": "decorator"}
    return prog([inp("a", "a", ("arr", SI, 2)), outer, {"k": "map", "x": "o", "a": "a", "f": "outer"}],
                [("o", "P0", "o")], ["nested-capture"])


def reduce_computed_initial():
    f = {"k": "def", "f": "add", "params": [("acc", SI), ("e", SI)], "ret": SI,
         "body": [{"k": "bin", "x": "s", "op": "OAdd", "a": "acc", "b": "e"}], "res": "s", "form": "decorator"}
    return prog([inp("a", "a", ("arr", SI, 3)), inp("u", "u", SI), inp("v", "v", SI, "P1"),
                 {"k": "bin", "x": "i", "op": "OMul", "a": "u", "b": "v"}, f,
                 {"k": "reduce", "x": "r", "a": "a", "f": "add", "init": "i"}],
                [("r", "P0", "r")], ["reduce-initial"])


def shared_function_two_sites():
    f = {"k": "def", "f": "dbl", "params": [("e", PI)], "ret": PI,
         "body": [{"k": "bin", "x": "s", "op": "OAdd", "a": "e", "b": "e"}], "res": "s", "form": "explicit"}
    return prog([inp("a", "a", ("arr", PI, 3)), inp("b", "b", ("arr", PI, 2), "P1"), f,
                 {"k": "map", "x": "m1", "a": "a", "f": "dbl"}, {"k": "map", "x": "m2", "a": "b", "f": "dbl"},
                 inp("z", "z", PI), {"k": "call", "x": "c", "f": "dbl", "args": ["z"], "kwargs": []}],
                [("o1", "P0", "m1"), ("o2", "P1", "m2"), ("o3", "P2", "c")], ["shared-function"])


def function_calls_function():
    g = {"k": "def", "f": "g", "params": [("e", SI)], "ret": SI,
         "body": [{"k": "bin", "x": "s", "op": "OMul", "a": "e", "b": "e"}], "res": "s", "form": "decorator"}
    h = {"k": "def", "f": "h", "params": [("p", SI), ("q", PI)], "ret": SI,
         "body": [{"k": "call", "x": "c", "f": "g", "args": ["p"], "kwargs": []},
                  {"k": "bin", "x": "d", "op": "OSub", "a": "c", "b": "q"},
                  inp("hid", "hidden", SI, "P2", "only inside a function")],
         "res": "d", "form": "decorator"}
    return prog([g, h, inp("x", "x", SI), inp("y", "y", PI, "P1"),
                 {"k": "call", "x": "r", "f": "h", "args": ["x", "y"], "kwargs": []},
                 {"k": "lit", "x": "l1", "b": "Int", "v": 1}, {"k": "lit", "x": "l2", "b": "UInt", "v": 1},
                 inp("dead", "dead", SI)],
                [("r", "P0", "r"), ("l1", "P0", "l1"), ("l2", "P1", "l2")], ["call-graph", "same-literal-two-types", "dead-input"])


def compound_types():
    return prog([inp("a", "a", ("arr", PI, 2)), inp("x", "x", SI), {"k": "lit", "x": "k", "b": "Int", "v": 42},
                 {"k": "ntnew", "x": "t", "es": ["x", "a", "k"]}, {"k": "objnew", "x": "o", "fs": [("a", "x"), ("b", "a"), ("c", "t")]},
                 {"k": "idx", "x": "a2", "a": "t", "i": 1}, {"k": "fld", "x": "t2", "a": "o", "f": "c"},
                 {"k": "zip", "x": "z", "a": "a", "b": "a2"}, {"k": "unzip", "x": "uz", "a": "z"},
                 {"k": "tupnew", "x": "tp", "a": "x", "b": "a"}],
                [("o1", "P0", "t2"), ("o2", "P0", "uz"), ("o3", "P1", "tp"), ("o4", "P1", "o")], ["compound"])


def array_param():
    f = {"k": "def", "f": "fa", "params": [("v", ("arr", SI, None)), ("w", SI)], "ret": SI,
         "body": [{"k": "inner", "x": "ip", "a": "v", "b": "v"}, {"k": "bin", "x": "s", "op": "OAdd", "a": "ip", "b": "w"}],
         "res": "s", "form": "decorator"}
    return prog([inp("a", "a", ("arr", SI, 3)), inp("x", "x", SI), f,
                 {"k": "call", "x": "r", "f": "fa", "args": ["a", "x"], "kwargs": []}],
                [("r", "P0", "r")], ["array-param"])


def size_zero_array():
    return prog([inp("a", "a", ("arr", SI, 0))], [("o", "P0", "a")], ["size-0"])


def all_families():
    return [nested_capture(), reduce_computed_initial(), shared_function_two_sites(), function_calls_function(),
            compound_types(), array_param(), size_zero_array()]
