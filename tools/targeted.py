"""Per-property targeted program families (surface-program dicts)."""
from surface import S


def inp(x, name, t, party="P0", doc=""):
    return {"k": "input", "x": x, "name": name, "party": party, "doc": doc, "t": t}


SI, PI, SU, PU = S("Secret", "Int"), S("Public", "Int"), S("Secret", "UInt"), S("Public", "UInt")
SB, PB = S("Secret", "Bool"), S("Public", "Bool")


def prog(stmts, outs, tags=()):
    return {"stmts": stmts, "outs": outs, "tags": list(tags), "dead": False}


def nested_capture():
    """inner nada_fn uses the enclosing function's parameter (known finding C01/scope)"""
    inner = {"k": "def", "f": "inner", "params": [("y", SI)], "ret": SI,
             "body": [{"k": "bin", "x": "s", "op": "OAdd", "a": "y", "b": "x"}], "res": "s", "form": "decorator"}
    outer = {"k": "def", "f": "outer", "params": [("x", SI)], "ret": SI,
             "body": [inner, {"k": "call", "x": "c", "f": "inner", "args": ["x"], "kwargs": []}], "res": "c", "form": "decorator"}
    return prog([inp("a", "a", ("arr", SI, 2)), outer, {"k": "map", "x": "o", "a": "a", "f": "outer"}],
                [("o", "P0", "o")], ["nested-capture"])


def reduce_computed_initial():
    f = {"k": "def", "f": "add", "params": [("acc", SI), ("e", SI)], "ret": SI,
         "body": [{"k": "bin", "x": "s", "op": "OAdd", "a": "acc", "b": "e"}], "res": "s", "form": "decorator"}
    return prog([inp("a", "a", ("arr", SI, 3)), inp("u", "u", SI), inp("v", "v", SI, "P1"),
                 {"k": "bin", "x": "i", "op": "OMul", "a": "u", "b": "v"}, f,
                 {"k": "reduce", "x": "r", "a": "a", "f": "add", "init": "i"}],
                [("r", "P0", "r")], ["reduce-initial"])


def shared_function_two_sites():
    f = {"k": "def", "f": "dbl", "params": [("e", PI)], "ret": PI,
         "body": [{"k": "bin", "x": "s", "op": "OAdd", "a": "e", "b": "e"}], "res": "s", "form": "explicit"}
    return prog([inp("a", "a", ("arr", PI, 3)), inp("b", "b", ("arr", PI, 2), "P1"), f,
                 {"k": "map", "x": "m1", "a": "a", "f": "dbl"}, {"k": "map", "x": "m2", "a": "b", "f": "dbl"},
                 inp("z", "z", PI), {"k": "call", "x": "c", "f": "dbl", "args": ["z"], "kwargs": []}],
                [("o1", "P0", "m1"), ("o2", "P1", "m2"), ("o3", "P2", "c")], ["shared-function"])


def function_calls_function():
    g = {"k": "def", "f": "g", "params": [("e", SI)], "ret": SI,
         "body": [{"k": "bin", "x": "s", "op": "OMul", "a": "e", "b": "e"}], "res": "s", "form": "decorator"}
    h = {"k": "def", "f": "h", "params": [("p", SI), ("q", PI)], "ret": SI,
         "body": [{"k": "call", "x": "c", "f": "g", "args": ["p"], "kwargs": []},
                  {"k": "bin", "x": "d", "op": "OSub", "a": "c", "b": "q"},
                  inp("hid", "hidden", SI, "P2", "only inside a function")],
         "res": "d", "form": "decorator"}
    return prog([g, h, inp("x", "x", SI), inp("y", "y", PI, "P1"),
                 {"k": "call", "x": "r", "f": "h", "args": ["x", "y"], "kwargs": []},
                 {"k": "lit", "x": "l1", "b": "Int", "v": 1}, {"k": "lit", "x": "l2", "b": "UInt", "v": 1},
                 inp("dead", "dead", SI)],
                [("r", "P0", "r"), ("l1", "P0", "l1"), ("l2", "P1", "l2")], ["call-graph", "same-literal-two-types", "dead-input"])


def compound_types():
    return prog([inp("a", "a", ("arr", PI, 2)), inp("x", "x", SI), {"k": "lit", "x": "k", "b": "Int", "v": 42},
                 {"k": "ntnew", "x": "t", "es": ["x", "a", "k"]}, {"k": "objnew", "x": "o", "fs": [("a", "x"), ("b", "a"), ("c", "t")]},
                 {"k": "idx", "x": "a2", "a": "t", "i": 1}, {"k": "fld", "x": "t2", "a": "o", "f": "c"},
                 {"k": "zip", "x": "z", "a": "a", "b": "a2"}, {"k": "unzip", "x": "uz", "a": "z"},
                 {"k": "tupnew", "x": "tp", "a": "x", "b": "a"}],
                [("o1", "P0", "t2"), ("o2", "P0", "uz"), ("o3", "P1", "tp"), ("o4", "P1", "o")], ["compound"])


def array_param():
    f = {"k": "def", "f": "fa", "params": [("v", ("arr", SI, None)), ("w", SI)], "ret": SI,
         "body": [{"k": "inner", "x": "ip", "a": "v", "b": "v"}, {"k": "bin", "x": "s", "op": "OAdd", "a": "ip", "b": "w"}],
         "res": "s", "form": "decorator"}
    return prog([inp("a", "a", ("arr", SI, 3)), inp("x", "x", SI), f,
                 {"k": "call", "x": "r", "f": "fa", "args": ["a", "x"], "kwargs": []}],
                [("r", "P0", "r")], ["array-param"])


def size_zero_array():
    return prog([inp("a", "a", ("arr", SI, 0))], [("o", "P0", "a")], ["size-0"])


def helper_from_two_functions():
    """h is never called from the program body, only from the bodies of f and g"""
    h = {"k": "def", "f": "h", "params": [("e", SI)], "ret": SI,
         "body": [{"k": "bin", "x": "s", "op": "OMul", "a": "e", "b": "e"}], "res": "s", "form": "decorator"}
    f = {"k": "def", "f": "f", "params": [("p", SI)], "ret": SI,
         "body": [{"k": "call", "x": "c", "f": "h", "args": ["p"], "kwargs": []}], "res": "c", "form": "decorator"}
    g = {"k": "def", "f": "g", "params": [("p", SI)], "ret": SI,
         "body": [{"k": "call", "x": "c", "f": "h", "args": ["p"], "kwargs": []},
                  {"k": "bin", "x": "d", "op": "OAdd", "a": "c", "b": "p"}], "res": "d", "form": "decorator"}
    return prog([h, f, g, inp("x", "x", SI), inp("a", "a", ("arr", SI, 2)),
                 {"k": "call", "x": "r1", "f": "f", "args": ["x"], "kwargs": []},
                 {"k": "map", "x": "r2", "a": "a", "f": "g"}],
                [("o1", "P0", "r1"), ("o2", "P1", "r2")], ["helper-from-two-functions"])


def same_value_two_types():
    return prog([{"k": "lit", "x": "l1", "b": "Int", "v": 7}, {"k": "lit", "x": "l2", "b": "UInt", "v": 7},
                 {"k": "lit", "x": "l3", "b": "Int", "v": 7}, inp("x", "x", SI), inp("u", "u", SU),
                 {"k": "bin", "x": "a", "op": "OAdd", "a": "x", "b": "l1"}, {"k": "bin", "x": "b", "op": "OAdd", "a": "u", "b": "l2"},
                 {"k": "bin", "x": "c", "op": "OMul", "a": "a", "b": "l3"}],
                [("o1", "P0", "c"), ("o2", "P0", "b")], ["same-literal-two-types"])


def map_zip_mixed():
    """zip whose operands mix a map result (class-valued element type) with compound elements"""
    f = {"k": "def", "f": "f", "params": [("e", SI)], "ret": SB,
         "body": [{"k": "bin", "x": "s", "op": "OLt", "a": "e", "b": "e"}], "res": "s", "form": "decorator"}
    return prog([inp("a", "a", ("arr", SI, 2)), inp("b", "b", ("arr", SU, 2)), inp("c", "c", ("arr", PB, 2)), f,
                 {"k": "map", "x": "m", "a": "a", "f": "f"}, {"k": "zip", "x": "bc", "a": "b", "b": "c"},
                 {"k": "zip", "x": "z1", "a": "m", "b": "bc"}, {"k": "zip", "x": "z2", "a": "a", "b": "m"},
                 {"k": "zip", "x": "z3", "a": "bc", "b": "m"}],
                [("o1", "P0", "z1"), ("o2", "P0", "z2"), ("o3", "P1", "z3")], ["map-zip"])


def public_returning_function():
    f = {"k": "def", "f": "pf", "params": [("e", PI)], "ret": PI,
         "body": [{"k": "bin", "x": "s", "op": "OAdd", "a": "e", "b": "e"}], "res": "s", "form": "decorator"}
    g2 = {"k": "def", "f": "pr", "params": [("acc", PI), ("e", PI)], "ret": PI,
          "body": [{"k": "bin", "x": "s", "op": "OAdd", "a": "acc", "b": "e"}], "res": "s", "form": "decorator"}
    return prog([inp("a", "a", ("arr", PI, 2)), inp("x", "x", PI), f, g2, {"k": "map", "x": "m", "a": "a", "f": "pf"},
                 {"k": "reduce", "x": "r", "a": "m", "f": "pr", "init": "x"}, {"k": "call", "x": "c", "f": "pf", "args": ["x"], "kwargs": []}],
                [("o1", "P0", "m"), ("o2", "P0", "r"), ("o3", "P1", "c")], ["public-function"])


def literal_param_fold():
    """an operator applied to literal-typed parameters only is folded on the placeholder 0 (known finding C04/C06)"""
    CI = S("Const", "Int")
    g = {"k": "def", "f": "g", "params": [("k", CI), ("j", CI), ("x", SI)], "ret": SI,
         "body": [{"k": "bin", "x": "kj", "op": "OAdd", "a": "k", "b": "j"},
                  {"k": "bin", "x": "r", "op": "OMul", "a": "kj", "b": "x"}], "res": "r", "form": "decorator"}
    return prog([g, {"k": "lit", "x": "c1", "b": "Int", "v": 2}, {"k": "lit", "x": "c2", "b": "Int", "v": 3}, inp("x", "x", SI),
                 {"k": "call", "x": "r", "f": "g", "args": ["c1", "c2", "x"], "kwargs": []}],
                [("o", "P0", "r")], ["literal-param-fold"])


def kwargs_call():
    """keyword arguments of a nada function call are dropped (known finding C04/C11)"""
    f = {"k": "def", "f": "sub", "params": [("x", SI), ("y", SI)], "ret": SI,
         "body": [{"k": "bin", "x": "d", "op": "OSub", "a": "x", "b": "y"}], "res": "d", "form": "decorator"}
    return prog([f, inp("a", "a", SI), inp("b", "b", SI),
                 {"k": "call", "x": "r", "f": "sub", "args": ["a"], "kwargs": [("y", "b")]}],
                [("o", "P0", "r")], ["kwargs"])


def noncommutative_mix():
    return prog([inp("a", "a", SI), inp("b", "b", SI), inp("u", "u", PU), inp("c", "c", SI, "P1"),
                 {"k": "bin", "x": "s", "op": "OSub", "a": "a", "b": "b"}, {"k": "bin", "x": "d", "op": "ODiv", "a": "b", "b": "a"},
                 {"k": "bin", "x": "sh", "op": "OLShift", "a": "a", "b": "u"}, {"k": "bin", "x": "lt", "op": "OLt", "a": "s", "b": "d"},
                 {"k": "ifelse", "x": "ie", "c": "lt", "a": "a", "b": "c"}, {"k": "random", "x": "r1", "b": "Int"},
                 {"k": "random", "x": "r2", "b": "Int"}, {"k": "bin", "x": "rr", "op": "OSub", "a": "r1", "b": "r1"},
                 {"k": "bin", "x": "r3", "op": "OSub", "a": "r1", "b": "r2"}, {"k": "bin", "x": "tp", "op": "OTruncPr", "a": "sh", "b": "u"}],
                [("o1", "P0", "ie"), ("o2", "P0", "rr"), ("o3", "P1", "r3"), ("o4", "P1", "tp")], ["non-commutative", "sharing"])


def function_body_literal():
    """a function whose body uses literals and an input that appear nowhere else"""
    f = {"k": "def", "f": "scale", "params": [("e", SI)], "ret": SI,
         "body": [{"k": "lit", "x": "three", "b": "Int", "v": 3}, {"k": "bin", "x": "m", "op": "OMul", "a": "e", "b": "three"},
                  inp("bias", "bias", SI, "P1"), {"k": "bin", "x": "r", "op": "OAdd", "a": "m", "b": "bias"}],
         "res": "r", "form": "decorator"}
    return prog([inp("a", "a", ("arr", SI, 3)), f, {"k": "map", "x": "m", "a": "a", "f": "scale"},
                 inp("x", "x", SI), {"k": "call", "x": "c", "f": "scale", "args": ["x"], "kwargs": []}],
                [("o1", "P0", "m"), ("o2", "P0", "c")], ["function-body-literal"])


def inner_public_secret():
    """inner product of a public array with a secret array"""
    return prog([inp("a", "a", ("arr", PI, 3)), inp("b", "b", ("arr", SI, 3), "P1"), {"k": "inner", "x": "r", "a": "a", "b": "b"}],
                [("o", "P0", "r")], ["inner-public-secret"])


def inner_int_uint():
    return prog([inp("a", "a", ("arr", SI, 3)), inp("b", "b", ("arr", SU, 3), "P1"), {"k": "inner", "x": "r", "a": "a", "b": "b"}],
                [("o", "P0", "r")], ["inner-int-uint"])


def untruthful_annotation():
    """a function annotated public applied to a secret argument (known finding C03)"""
    f = {"k": "def", "f": "ident", "params": [("e", PI)], "ret": PI,
         "body": [{"k": "bin", "x": "s", "op": "OAdd", "a": "e", "b": "e"}], "res": "s", "form": "decorator"}
    return prog([f, inp("x", "x", SI), {"k": "call", "x": "r", "f": "ident", "args": ["x"], "kwargs": []}],
                [("o", "P0", "r")], ["untruthful-annotation"])


def secret_flows():
    """secrets flowing through every container operation and through functions; the legitimate declassifiers"""
    f = {"k": "def", "f": "mix", "params": [("acc", SI), ("e", SI)], "ret": SI,
         "body": [{"k": "bin", "x": "s", "op": "OAdd", "a": "acc", "b": "e"}], "res": "s", "form": "decorator"}
    g2 = {"k": "def", "f": "pubf", "params": [("e", PI)], "ret": SI,
          "body": [{"k": "bin", "x": "s", "op": "OMul", "a": "e", "b": "sec"}], "res": "s", "form": "decorator"}
    return prog([inp("sec", "sec", SI), inp("pub", "pub", PI, "P1"), inp("pa", "pa", ("arr", PI, 2)), inp("sa", "sa", ("arr", SI, 2)),
                 f, g2, {"k": "map", "x": "m", "a": "pa", "f": "pubf"}, {"k": "reduce", "x": "r", "a": "sa", "f": "mix", "init": "sec"},
                 {"k": "zip", "x": "z", "a": "pa", "b": "sa"}, {"k": "unzip", "x": "uz", "a": "z"},
                 {"k": "ntnew", "x": "nt", "es": ["pub", "sec", "pa"]}, {"k": "idx", "x": "n0", "a": "nt", "i": 0},
                 {"k": "idx", "x": "n1", "a": "nt", "i": 1}, {"k": "objnew", "x": "ob", "fs": [("a", "pub"), ("b", "sec")]},
                 {"k": "fld", "x": "oa", "a": "ob", "f": "a"}, {"k": "topublic", "x": "rev", "a": "sec"},
                 {"k": "bin", "x": "pe", "op": "OPublicEquals", "a": "sec", "b": "pub"},
                 {"k": "bin", "x": "cmp", "op": "OLt", "a": "pub", "b": "sec"}, {"k": "ifelse", "x": "ie", "c": "cmp", "a": "pub", "b": "pub"},
                 {"k": "random", "x": "rnd", "b": "Bool"}, {"k": "ifelse", "x": "ie2", "c": "rnd", "a": "n0", "b": "oa"},
                 {"k": "bin", "x": "s2", "op": "OAdd", "a": "rev", "b": "n0"}],
                [("o1", "P0", "m"), ("o2", "P0", "r"), ("o3", "P1", "uz"), ("o4", "P1", "n1"), ("o5", "P0", "s2"),
                 ("o6", "P0", "pe"), ("o7", "P0", "ie"), ("o8", "P1", "ie2")], ["secret-flows"])


def dup_inputs(kind):
    """colliding input names"""
    st = [inp("x", "dup", SI, "P0"), inp("y", "dup", PI if kind == "same-party-diff-type" else SI,
                                         "P1" if kind.startswith("diff-party") else "P0"), inp("z", "other", SI)]
    if kind.endswith("one-dead"):
        return prog(st, [("o1", "P0", "x"), ("o2", "P0", "z")], ["dup-input", kind])
    return prog(st, [("o1", "P0", "x"), ("o2", "P0", "y")], ["dup-input", kind, "must-reject"])


def output_of_function():
    f = {"k": "def", "f": "ff", "params": [("e", SI)], "ret": SI, "body": [], "res": "e", "form": "decorator"}
    return prog([inp("x", "x", SI), f], [("o", "P0", "ff")], ["output-non-nada", "must-reject"])


def rejected_functions():
    CI = S("Const", "Int")
    out = []
    out.append(prog([{"k": "def", "f": "lr", "params": [("e", SI)], "ret": CI, "body": [{"k": "lit", "x": "l", "b": "Int", "v": 1}], "res": "l", "form": "decorator"},
                     inp("x", "x", SI)], [("o", "P0", "x")], ["literal-return", "must-reject"]))
    out.append(prog([{"k": "def", "f": "al", "params": [("k", CI), ("j", S("Const", "UInt"))], "ret": SI, "body": [inp("q", "q", SI)], "res": "q", "form": "decorator"},
                     inp("x", "x", SI)], [("o", "P0", "x")], ["all-literal-params", "must-reject"]))
    out.append(prog([{"k": "def", "f": "al2", "params": [("k", CI)], "ret": SI, "body": [inp("q", "q", SI)], "res": "q", "form": "explicit"},
                     inp("x", "x", SI)], [("o", "P0", "x")], ["all-literal-params", "must-reject"]))
    # explicit types that contradict the Python annotations of the function: the explicit ones decide
    d = prog([inp("arr", "arr", ("arr", SI, 2)),
              {"k": "def", "f": "twice", "params": [("a", SI)], "ret": CI, "body": [{"k": "bin", "x": "s", "op": "OAdd", "a": "a", "b": "a"}], "res": "s", "form": "explicit"},
              {"k": "map", "x": "m", "a": "arr", "f": "twice"}], [("o", "P0", "m")], ["literal-return", "must-reject", "annotations-vs-explicit-types"])
    d["text"] = ("from nada_dsl import *\n\n\ndef nada_main():\n    party_P0 = Party(name='P0')\n"
                 "    arr = Array(SecretInteger(Input(name='arr', party=party_P0)), size=2)\n"
                 "    def twice(a: PublicInteger) -> PublicInteger:\n        s = a + a\n        return s\n"
                 "    twice = nada_fn(twice, args_ty={'a': SecretInteger}, return_ty=Integer)\n"
                 "    m = arr.map(twice)\n    return [Output(m, 'o', party_P0)]\n")
    out.append(d)
    return out


def explicit_types_reordered():
    """nada_fn(fn, args_ty=...) with the keys of args_ty in another order than the parameters"""
    st = [inp("s", "s", SI), inp("q", "q", PI),
          {"k": "def", "f": "scale", "params": [("x", SI), ("y", PI)], "ret": SI,
           "body": [{"k": "bin", "x": "d", "op": "OSub", "a": "x", "b": "y"}], "res": "d", "form": "explicit"},
          {"k": "call", "x": "r", "f": "scale", "args": ["s", "q"], "kwargs": []}]
    d = prog(st, [("o", "P0", "r")], ["explicit-types-reordered"])
    d["text"] = ("from nada_dsl import *\n\n\ndef nada_main():\n    party_P0 = Party(name='P0')\n"
                 "    s = SecretInteger(Input(name='s', party=party_P0))\n    q = PublicInteger(Input(name='q', party=party_P0))\n"
                 "    def scale(x, y):\n        d = x - y\n        return d\n"
                 "    scale = nada_fn(scale, args_ty={'y': PublicInteger, 'x': SecretInteger}, return_ty=SecretInteger)\n"
                 "    r = scale(s, q)\n    return [Output(r, 'o', party_P0)]\n")
    return d


def signatures():
    """functions with 1..4 parameters of pairwise different types, both forms, non-commutative bodies"""
    f = {"k": "def", "f": "f4", "params": [("a", SI), ("b", PI), ("c", SU), ("d", PU)], "ret": SI,
         "body": [{"k": "bin", "x": "s", "op": "OSub", "a": "a", "b": "b"}, {"k": "bin", "x": "t", "op": "OLShift", "a": "s", "b": "d"},
                  {"k": "bin", "x": "u", "op": "ORShift", "a": "c", "b": "d"}], "res": "t", "form": "explicit"}
    g2 = {"k": "def", "f": "g2", "params": [("p", PB), ("q", SI)], "ret": SI,
          "body": [{"k": "ifelse", "x": "s", "c": "p", "a": "q", "b": "q"}], "res": "s", "form": "decorator"}
    return prog([f, g2, inp("a", "a", SI), inp("b", "b", PI), inp("c", "c", SU, "P1"), inp("d", "d", PU, "P1"), inp("pb", "pb", PB),
                 {"k": "call", "x": "r1", "f": "f4", "args": ["a", "b", "c", "d"], "kwargs": []},
                 {"k": "call", "x": "r2", "f": "g2", "args": ["pb", "r1"], "kwargs": []},
                 {"k": "call", "x": "r3", "f": "g2", "args": ["pb", "a"], "kwargs": []}],
                [("o1", "P0", "r2"), ("o2", "P1", "r3")], ["signatures"])


def literal_array_inner():
    """inner product of an array of literals with a secret array, both orders"""
    st = [{"k": "lit", "x": "w1", "b": "Int", "v": 2}, {"k": "lit", "x": "w2", "b": "Int", "v": 3},
          {"k": "arrnew", "x": "w", "es": ["w1", "w2"]}, inp("s", "s", ("arr", SI, 2)),
          {"k": "inner", "x": "r1", "a": "w", "b": "s"}, {"k": "inner", "x": "r2", "a": "s", "b": "w"},
          inp("pa", "pa", ("arr", PI, 2), "P1"), {"k": "inner", "x": "r3", "a": "w", "b": "pa"}]
    return prog(st, [("o1", "P0", "r1"), ("o2", "P0", "r2"), ("o3", "P1", "r3")], ["literal-array-inner"])


def object_key_order():
    return prog([inp("z", "in_z", SI), inp("a", "in_a", SI), inp("m", "in_m", SI, "P1"),
                 {"k": "objnew", "x": "o", "fs": [("zed", "z"), ("alpha", "a"), ("mid", "m")]},
                 {"k": "fld", "x": "fz", "a": "o", "f": "zed"}, {"k": "fld", "x": "fa", "a": "o", "f": "alpha"},
                 {"k": "bin", "x": "d", "op": "OSub", "a": "fz", "b": "fa"}],
                [("o1", "P0", "d"), ("o2", "P1", "o")], ["object-key-order"])


def wrong_arity_calls():
    """a nada function called with too few / too many arguments, or with a keyword for one of two parameters only"""
    f = {"k": "def", "f": "sub2", "params": [("x", SI), ("y", SI)], "ret": SI,
         "body": [{"k": "bin", "x": "d", "op": "OSub", "a": "x", "b": "y"}], "res": "d", "form": "decorator"}
    base = [inp("a", "a", SI), inp("b", "b", SI, "P1"), inp("c", "c", SI), f]
    out = []
    for tag, args, kw in (("too-few", ["a"], []), ("too-many", ["a", "b", "c"], []), ("keyword-only-one-of-two", [], [("y", "b")]),
                          ("one-positional-and-too-many-keywords", ["a"], [("y", "b"), ("x", "c")])):
        out.append(prog(list(base) + [{"k": "call", "x": "r", "f": "sub2", "args": args, "kwargs": kw}], [("o", "P0", "r")],
                        ["wrong-arity", tag, "must-reject"]))
    return out


def dup_inputs_one_line(kind):
    """two different inputs of one name created by ONE source line (a comprehension, a helper called twice)"""
    d = prog([inp("v1", "vote", SI), inp("v2", "vote", SI), {"k": "bin", "x": "r", "op": "OMul", "a": "v1", "b": "v2"}],
             [("o1", "P0", "v1"), ("o2", "P0", "v2"), ("o", "P0", "r")], ["dup-input", "one-source-line", kind, "must-reject"])
    head = "from nada_dsl import *\n\n\ndef nada_main():\n    party_P0 = Party(name='P0')\n"
    if kind == "comprehension":
        d["text"] = (head + "    vs = [SecretInteger(Input(name='vote', party=party_P0)) for _ in range(2)]\n"
                     "    v1 = vs[0]\n    v2 = vs[1]\n    r = v1 * v2\n    return [Output(v1, 'o1', party_P0), Output(v2, 'o2', party_P0), Output(r, 'o', party_P0)]\n")
    else:
        d["text"] = (head + "    def secret(name):\n        return SecretInteger(Input(name=name, party=party_P0))\n"
                     "    v1 = secret('vote')\n    v2 = secret('vote')\n    r = v1 * v2\n    return [Output(v1, 'o1', party_P0), Output(v2, 'o2', party_P0), Output(r, 'o', party_P0)]\n")
    return d


def matrix_params_two_element_types():
    """two nada functions whose parameters are arrays of arrays with different innermost element types"""
    PI = S("Public", "Int")
    f1 = {"k": "def", "f": "first_s", "params": [("m", ("arr", ("arr", SI, None), None))], "ret": SI, "body": [inp("q1", "q1", SI)], "res": "q1", "form": "decorator"}
    f2 = {"k": "def", "f": "first_p", "params": [("w", ("arr", ("arr", PI, None), None))], "ret": SI, "body": [inp("q2", "q2", SI)], "res": "q2", "form": "decorator"}
    return prog([inp("ms", "ms", ("arr", ("arr", SI, 2), 3)), inp("mp", "mp", ("arr", ("arr", PI, 2), 3)), f1, f2,
                 {"k": "call", "x": "r1", "f": "first_s", "args": ["ms"], "kwargs": []},
                 {"k": "call", "x": "r2", "f": "first_p", "args": ["mp"], "kwargs": []},
                 {"k": "bin", "x": "r", "op": "OAdd", "a": "r1", "b": "r2"}],
                [("o", "P0", "r")], ["matrix-params", "array-param"])


def declassifying_function_mapped():
    """a function that reveals in its body, mapped and reduced over secret arrays: the results have the function's (public) type"""
    PI = S("Public", "Int")
    rev = {"k": "def", "f": "reveal", "params": [("x", SI)], "ret": PI, "body": [{"k": "topublic", "x": "p", "a": "x"}], "res": "p", "form": "decorator"}
    addp = {"k": "def", "f": "addp", "params": [("acc", PI), ("x", SI)], "ret": PI,
            "body": [{"k": "topublic", "x": "p", "a": "x"}, {"k": "bin", "x": "t", "op": "OAdd", "a": "acc", "b": "p"}], "res": "t", "form": "decorator"}
    return prog([inp("xs", "xs", ("arr", SI, 3)), inp("z", "z", PI), rev, addp,
                 {"k": "map", "x": "m", "a": "xs", "f": "reveal"}, {"k": "reduce", "x": "r", "a": "xs", "f": "addp", "init": "z"}],
                [("o1", "P0", "m"), ("o2", "P0", "r")], ["declassifying-function-mapped"])


def row_function_over_two_matrices():
    """one row function (unsized array parameter) mapped over matrices with rows of different sizes"""
    inc = {"k": "def", "f": "inc", "params": [("e", SI)], "ret": SI, "body": [{"k": "bin", "x": "s", "op": "OAdd", "a": "e", "b": "e"}], "res": "s", "form": "decorator"}
    add = {"k": "def", "f": "add", "params": [("acc", SI), ("e", SI)], "ret": SI, "body": [{"k": "bin", "x": "s", "op": "OAdd", "a": "acc", "b": "e"}], "res": "s", "form": "decorator"}
    row = {"k": "def", "f": "row_total", "params": [("row", ("arr", SI, None))], "ret": SI,
           "body": [{"k": "map", "x": "d", "a": "row", "f": "inc"}, {"k": "reduce", "x": "t", "a": "d", "f": "add", "init": "zero"}], "res": "t", "form": "decorator"}
    return prog([inp("zero", "zero", SI), inp("m1", "m1", ("arr", ("arr", SI, 4), 3)), inp("m2", "m2", ("arr", ("arr", SI, 6), 2)), inc, add, row,
                 {"k": "map", "x": "t1", "a": "m1", "f": "row_total"}, {"k": "map", "x": "t2", "a": "m2", "f": "row_total"}],
                [("o1", "P0", "t1"), ("o2", "P0", "t2")], ["row-function-two-matrices", "array-param"])


def array_returning_function():
    """a nada function annotated to return an array (rejected by the library as it stands; if ever accepted, the
    function's return type in the MIR must be a complete array type equal to the type of its return operation).
    Scalar parameter, the array is captured: array PARAMETERS are the separate open finding about missing sizes."""
    f = {"k": "def", "f": "whole_row", "params": [("x", SI)], "ret": ("arr", SI, None), "body": [], "res": "z", "form": "decorator"}
    return prog([inp("a", "a", SI), inp("z", "z", ("arr", SI, 3)), f,
                 {"k": "call", "x": "r", "f": "whole_row", "args": ["a"], "kwargs": []}],
                [("o", "P0", "r")], ["array-returning-function"])


def call_chain_depth_four():
    """f calls g calls h calls k: every function reachable only through another function's body is emitted"""
    k_ = {"k": "def", "f": "kk", "params": [("x", SI)], "ret": SI, "body": [{"k": "bin", "x": "s", "op": "OMul", "a": "x", "b": "x"}], "res": "s", "form": "decorator"}
    h_ = {"k": "def", "f": "hh", "params": [("x", SI)], "ret": SI, "body": [{"k": "call", "x": "c", "f": "kk", "args": ["x"], "kwargs": []}, {"k": "bin", "x": "s", "op": "OSub", "a": "c", "b": "x"}], "res": "s", "form": "decorator"}
    g_ = {"k": "def", "f": "gg", "params": [("x", SI)], "ret": SI, "body": [{"k": "call", "x": "c", "f": "hh", "args": ["x"], "kwargs": []}, {"k": "bin", "x": "s", "op": "OAdd", "a": "c", "b": "x"}], "res": "s", "form": "decorator"}
    f_ = {"k": "def", "f": "ff", "params": [("x", SI)], "ret": SI, "body": [{"k": "call", "x": "c", "f": "gg", "args": ["x"], "kwargs": []}], "res": "c", "form": "decorator"}
    return prog([inp("arr", "arr", ("arr", SI, 3)), k_, h_, g_, f_, {"k": "map", "x": "m", "a": "arr", "f": "ff"}],
                [("o", "P0", "m")], ["call-chain-depth-four"])


def operations_shared_between_tables():
    """an Array.new and a function call used both by the main program and inside a function body (through a closure)"""
    add = {"k": "def", "f": "add", "params": [("acc", SI), ("e", SI)], "ret": SI, "body": [{"k": "bin", "x": "s", "op": "OAdd", "a": "acc", "b": "e"}], "res": "s", "form": "decorator"}
    twice = {"k": "def", "f": "twice", "params": [("e", SI)], "ret": SI, "body": [{"k": "bin", "x": "s", "op": "OAdd", "a": "e", "b": "e"}], "res": "s", "form": "decorator"}
    scale = {"k": "def", "f": "scale", "params": [("e", SI)], "ret": SI,
             "body": [{"k": "bin", "x": "s", "op": "OMul", "a": "e", "b": "total"}, {"k": "bin", "x": "t", "op": "OSub", "a": "s", "b": "tw"}], "res": "t", "form": "decorator"}
    return prog([inp("a", "a", SI), inp("b", "b", SI), inp("c", "c", SI), inp("zero", "zero", SI),
                 {"k": "bin", "x": "ab", "op": "OAdd", "a": "a", "b": "b"}, {"k": "bin", "x": "bc", "op": "OMul", "a": "b", "b": "c"}, {"k": "bin", "x": "ca", "op": "OSub", "a": "c", "b": "a"},
                 {"k": "arrnew", "x": "arr", "es": ["ab", "bc", "ca"]}, add, twice,
                 {"k": "reduce", "x": "total", "a": "arr", "f": "add", "init": "zero"},
                 {"k": "call", "x": "tw", "f": "twice", "args": ["ab"], "kwargs": []}, scale,
                 {"k": "map", "x": "m", "a": "arr", "f": "scale"}],
                [("o1", "P0", "m"), ("o2", "P0", "total"), ("o3", "P0", "tw"), ("o4", "P0", "arr")], ["operations-shared-between-tables"])


def same_output_name_to_several_parties():
    """one output name used for outputs to different parties (and once more for another value): every returned Output
    is an output of the MIR, in the returned order"""
    return prog([inp("a", "a", SI), inp("b", "b", SI, "P1"), {"k": "bin", "x": "s", "op": "OAdd", "a": "a", "b": "b"},
                 {"k": "bin", "x": "m", "op": "OMul", "a": "a", "b": "b"}],
                [("total", "P0", "s"), ("product", "P2", "m"), ("total", "P1", "s"), ("product", "P0", "m"), ("total", "P2", "m")],
                ["same-output-name-to-several-parties"])


def attribute_like_field_names():
    """object fields whose names read like attributes of the collection classes, used in arithmetic: each read is an
    accessor of the declared field (a field read as a plain Python number would be folded in as a literal)"""
    PI = S("Public", "Int")
    names = ["size", "price", "id", "count", "name", "type", "length", "index", "mode", "key"]
    st = [inp("v0", "size", SI), inp("v1", "price", SI), inp("v2", "id", PI), inp("v3", "count", PI, "P1"), inp("v4", "name", SI, "P1"),
          inp("v5", "type", PI), inp("v6", "length", SI), inp("v7", "index", PI), inp("v8", "mode", SI), inp("v9", "key", PI)]
    st.append({"k": "objnew", "x": "entry", "fs": [(n, f"v{i}") for i, n in enumerate(names)]})
    st.append({"k": "ntnew", "x": "pair", "es": ["v0", "v3"]})
    for i, n in enumerate(names):
        st.append({"k": "fld", "x": f"f{i}", "a": "entry", "f": n})
    st += [{"k": "bin", "x": "t0", "op": "OAdd", "a": "f0", "b": "f1"}, {"k": "bin", "x": "t1", "op": "OMul", "a": "f2", "b": "f3"},
           {"k": "bin", "x": "t2", "op": "OSub", "a": "f4", "b": "f5"}, {"k": "bin", "x": "t3", "op": "OAdd", "a": "f6", "b": "f7"},
           {"k": "bin", "x": "t4", "op": "OMul", "a": "f8", "b": "f9"}]
    return prog(st, [(f"o{i}", "P0", f"t{i}") for i in range(5)] + [("whole", "P1", "entry"), ("pair", "P1", "pair")], ["attribute-like-field-names"])


def random_draws_made_by_one_line():
    """several random draws made by ONE source line (a comprehension, a helper called twice) are several draws:
    the texts below mean the plain program with one statement per draw"""
    out = []
    base = [inp("st", "stake", SI), {"k": "random", "x": "r0", "b": "Int"}, {"k": "random", "x": "r1", "b": "Int"}, {"k": "random", "x": "r2", "b": "Int"},
            {"k": "bin", "x": "s0", "op": "OAdd", "a": "st", "b": "r0"}, {"k": "bin", "x": "s1", "op": "OAdd", "a": "st", "b": "r1"},
            {"k": "bin", "x": "s2", "op": "OAdd", "a": "st", "b": "r2"}, {"k": "bin", "x": "d", "op": "OSub", "a": "r0", "b": "r1"}]
    outs = [("o0", "P0", "s0"), ("o1", "P1", "s1"), ("o2", "P2", "s2"), ("o3", "P0", "d")]
    three = "    r0 = SecretInteger.random()\n    r1 = SecretInteger.random()\n    r2 = SecretInteger.random()\n"
    for tag, repl in (("comprehension", "    masks = [SecretInteger.random() for _ in range(3)]\n    r0, r1, r2 = masks\n"),
                      ("loop", "    masks = []\n    for _ in range(3):\n        masks.append(SecretInteger.random())\n    r0 = masks[0]\n    r1 = masks[1]\n    r2 = masks[2]\n"),
                      ("helper-called-three-times", "    def draw():\n        return SecretInteger.random()\n    r0, r1, r2 = draw(), draw(), draw()\n"),
                      ("one-expression", "    r0, r1, r2 = SecretInteger.random(), SecretInteger.random(), SecretInteger.random()\n")):
        pr = prog(list(base), list(outs), ["random-draws-made-by-one-line", tag])
        import surface as _surface
        text = _surface.to_python(pr)
        assert three in text, text
        pr["text"] = text.replace(three, repl)
        out.append(pr)
    return out


def operator_pairs():
    """the result of one operator used as the operand of another, for every ordered pair of the operators a secret
    integer takes a literal (or a public) right operand with, and every comparison followed by ~ / to_public /
    if_else: two operations written are two operations recorded (tenth seeding round: peephole rewrites)"""
    SU_, PU_ = S("Secret", "UInt"), S("Public", "UInt")
    PI = S("Public", "Int")
    ops = ["OAdd", "OSub", "OMul", "ODiv", "OMod", "OLShift", "ORShift", "OTruncPr"]
    amount = {"OLShift", "ORShift", "OTruncPr"}
    out = []
    for kind in ("literal", "public"):
        for i, A in enumerate(ops):
            st = [inp("x", "x", SI)]
            if kind == "literal":
                st += [{"k": "lit", "x": "ki", "b": "Int", "v": 3}, {"k": "lit", "x": "ku", "b": "UInt", "v": 2},
                       {"k": "lit", "x": "ki2", "b": "Int", "v": 5}, {"k": "lit", "x": "ku2", "b": "UInt", "v": 7}]
            else:
                st += [inp("ki", "ki", PI), inp("ku", "ku", PU_), inp("ki2", "ki2", PI), inp("ku2", "ku2", PU_)]
            st.append({"k": "bin", "x": "r", "op": A, "a": "x", "b": "ku" if A in amount else "ki"})
            outs = []
            for j, B in enumerate(ops):
                st.append({"k": "bin", "x": f"o{j}", "op": B, "a": "r", "b": "ku2" if B in amount else "ki2"})
                outs.append((f"o{j}", "P0", f"o{j}"))
            out.append(prog(st, outs, ["operator-pairs", kind, A]))
    # comparisons (secret and public operands) followed by every boolean consumer
    st = [inp("a", "a", SI), inp("b", "b", SI), inp("c", "c", PI), inp("d", "d", PI), {"k": "random", "x": "rnd", "b": "Int"}]
    outs = []
    n = 0
    for (l, r, tag) in (("a", "b", "s"), ("c", "d", "p"), ("a", "c", "m"), ("rnd", "a", "r")):
        for cmp_ in ("OLt", "OGt", "OLe", "OGe", "OEq", "ONe"):
            c = f"c{n}"
            st.append({"k": "bin", "x": c, "op": cmp_, "a": l, "b": r})
            st.append({"k": "not", "x": f"n{n}", "a": c})
            st.append({"k": "ifelse", "x": f"i{n}", "c": c, "a": l, "b": r})
            outs += [(f"n{n}", "P0", f"n{n}"), (f"i{n}", "P0", f"i{n}")]
            if tag != "p":
                st.append({"k": "topublic", "x": f"t{n}", "a": c})
                st.append({"k": "not", "x": f"u{n}", "a": f"t{n}"})
                outs += [(f"t{n}", "P0", f"t{n}"), (f"u{n}", "P0", f"u{n}")]
            n += 1
    out.append(prog(st, outs, ["operator-pairs", "comparison-then-consumer"]))
    # the same value as both operands, and an operation applied twice
    st = [inp("a", "a", SI), inp("q", "q", S("Secret", "Bool")),
          {"k": "bin", "x": "e0", "op": "OSub", "a": "a", "b": "a"}, {"k": "bin", "x": "e1", "op": "OEq", "a": "a", "b": "a"},
          {"k": "bin", "x": "e2", "op": "ODiv", "a": "a", "b": "a"}, {"k": "bin", "x": "e3", "op": "OLt", "a": "a", "b": "a"},
          {"k": "not", "x": "e4", "a": "q"}, {"k": "not", "x": "e5", "a": "e4"},
          {"k": "topublic", "x": "e6", "a": "a"}, {"k": "bin", "x": "e7", "op": "OPublicEquals", "a": "a", "b": "a"},
          {"k": "ifelse", "x": "e8", "c": "q", "a": "a", "b": "a"}, {"k": "bin", "x": "e9", "op": "OXor", "a": "q", "b": "q"}]
    out.append(prog(st, [(f"e{i}", "P0", f"e{i}") for i in range(10)], ["operator-pairs", "same-operand-twice"]))
    return out


def literal_used_as_seed_and_operand():
    """one literal value used as the initial value of a reduce AND as an ordinary operand elsewhere: a literal keeps
    its literal type wherever it is used"""
    add = {"k": "def", "f": "add", "params": [("acc", SI), ("e", SI)], "ret": SI, "body": [{"k": "bin", "x": "s", "op": "OAdd", "a": "acc", "b": "e"}], "res": "s", "form": "decorator"}
    return prog([inp("xs", "xs", ("arr", SI, 3)), inp("x", "x", SI), {"k": "lit", "x": "zero", "b": "Int", "v": 0}, {"k": "lit", "x": "two", "b": "Int", "v": 2}, add,
                 {"k": "reduce", "x": "total", "a": "xs", "f": "add", "init": "zero"},
                 {"k": "bin", "x": "p", "op": "OMul", "a": "x", "b": "zero"}, {"k": "bin", "x": "q", "op": "OAdd", "a": "two", "b": "zero"},
                 {"k": "reduce", "x": "total2", "a": "xs", "f": "add", "init": "two"}, {"k": "bin", "x": "w", "op": "OSub", "a": "x", "b": "two"}],
                [("o1", "P0", "total"), ("o2", "P0", "p"), ("o3", "P0", "q"), ("o4", "P0", "total2"), ("o5", "P0", "w")], ["literal-used-as-seed-and-operand", "reduce-public-seed"])


def names_with_blanks_and_shared_names():
    """names are reproduced exactly: input names with leading / trailing blanks (two inputs that differ only by a
    trailing blank are two inputs), an output with the name of an input, an output with the name of a party"""
    body = [{"k": "bin", "x": "s", "op": "OAdd", "a": "a", "b": "b"}, {"k": "bin", "x": "t", "op": "OSub", "a": "c", "b": "d"},
            {"k": "bin", "x": "u", "op": "OMul", "a": "e", "b": "s"}]
    return [prog([inp("a", "age ", SI), inp("b", " income", SI), inp("c", "reading", SI, "P1"), inp("d", "reading ", SI, "P1"), inp("e", "balance", SI)] + body,
                 [("o1", "P0", "u"), ("o2", "P1", "t"), (" total ", "P0", "s")], ["names-with-blanks-and-shared-names", "two-inputs-differing-by-a-blank"]),
            prog([inp("a", "age ", SI), inp("b", " income", SI), inp("c", "\treading", SI, "P1"), inp("d", "score\n", SI, "P1"), inp("e", "balance", SI)] + body,
                 [("o1 ", "P0", "u"), (" o2", "P1", "t"), (" total ", "P0", "s")], ["names-with-blanks-and-shared-names", "blanks-around-names"]),
            prog([inp("a", "a", SI), inp("b", "b", SI), inp("c", "c", SI, "P1"), inp("d", "d", SI, "P1"), inp("e", "balance", SI)] + body,
                 [("balance", "P0", "u"), ("c", "P1", "t"), ("a", "P0", "a"), ("P0", "P1", "s")], ["names-with-blanks-and-shared-names", "output-named-like-an-input"])]


def literals_of_equal_python_values():
    """1 and True, 0 and False are equal (and hash alike) in Python: as literals they are different literals of
    different types, each with its own printed value, in whatever order they are created"""
    SB = S("Secret", "Bool")
    return prog([inp("a", "a", SI), inp("q", "q", SB), inp("u", "u", SU),
                 {"k": "lit", "x": "t", "b": "Bool", "v": 1}, {"k": "lit", "x": "one", "b": "Int", "v": 1}, {"k": "lit", "x": "uone", "b": "UInt", "v": 1},
                 {"k": "lit", "x": "zero", "b": "Int", "v": 0}, {"k": "lit", "x": "f", "b": "Bool", "v": 0}, {"k": "lit", "x": "uzero", "b": "UInt", "v": 0},
                 {"k": "bin", "x": "r0", "op": "OXor", "a": "q", "b": "t"}, {"k": "bin", "x": "r1", "op": "OAdd", "a": "a", "b": "one"},
                 {"k": "bin", "x": "r2", "op": "OAdd", "a": "u", "b": "uone"}, {"k": "bin", "x": "r3", "op": "OMul", "a": "a", "b": "zero"},
                 {"k": "bin", "x": "r4", "op": "OXor", "a": "q", "b": "f"}, {"k": "bin", "x": "r5", "op": "OSub", "a": "u", "b": "uzero"},
                 {"k": "bin", "x": "c", "op": "OLt", "a": "zero", "b": "one"}, {"k": "bin", "x": "r6", "op": "OXor", "a": "q", "b": "c"}],
                [(f"o{i}", "P0", f"r{i}") for i in range(7)], ["literals-of-equal-python-values"])


def many_literals_created_twice(n=140):
    """more distinct literals than a small cache holds, each created a second time later: one table entry per literal"""
    st = [inp("x", "x", SI)]
    prev = "x"
    for rnd in (0, 1):
        for i in range(n):
            st.append({"k": "lit", "x": f"l{rnd}_{i}", "b": "Int", "v": 1000 + i})
            st.append({"k": "bin", "x": f"a{rnd}_{i}", "op": "OAdd", "a": prev, "b": f"l{rnd}_{i}"})
            prev = f"a{rnd}_{i}"
    return prog(st, [("o", "P0", prev)], ["many-literals-created-twice"])


def dup_inputs_only_in_function_bodies():
    """two different inputs under one name that are met only inside function bodies (different functions, different
    parties), or one in the program body and one only inside a function body: rejected like any other collision;
    if such a program is ever accepted, the tables must still be exact"""
    f = {"k": "def", "f": "f", "params": [("e", SI)], "ret": SI, "body": [inp("k1", "k", SI, "P0", "first k"), {"k": "bin", "x": "r", "op": "OAdd", "a": "e", "b": "k1"}], "res": "r", "form": "decorator"}
    g = {"k": "def", "f": "g", "params": [("e", SI)], "ret": SI, "body": [inp("k2", "k", SI, "P1", "second k"), {"k": "bin", "x": "r", "op": "OMul", "a": "e", "b": "k2"}], "res": "r", "form": "decorator"}
    h = {"k": "def", "f": "h", "params": [("e", SI)], "ret": SI, "body": [inp("k3", "k", SI, "P0", "inner k"), {"k": "bin", "x": "r", "op": "OSub", "a": "e", "b": "k3"}], "res": "r", "form": "decorator"}
    # the same collisions with the inputs created in the program body and only USED inside the function bodies (closures)
    fc = {"k": "def", "f": "fc", "params": [("e", SI)], "ret": SI, "body": [{"k": "bin", "x": "r", "op": "OAdd", "a": "e", "b": "c1"}], "res": "r", "form": "decorator"}
    gc = {"k": "def", "f": "gc", "params": [("e", SI)], "ret": SI, "body": [{"k": "bin", "x": "r", "op": "OMul", "a": "e", "b": "c2"}], "res": "r", "form": "decorator"}
    return [prog([inp("arr", "arr", ("arr", SI, 3)), inp("c1", "k", SI, "P0", "first k"), inp("c2", "k", SI, "P1", "second k"), fc, gc,
                  {"k": "map", "x": "m1", "a": "arr", "f": "fc"}, {"k": "map", "x": "m2", "a": "arr", "f": "gc"}],
                 [("o1", "P0", "m1"), ("o2", "P1", "m2")], ["dup-input", "captured-by-two-function-bodies"]),
            prog([inp("arr", "arr", ("arr", SI, 3)), inp("c1", "k", SI, "P0", "first k"), inp("c2", "k", SI, "P0", "second k"), fc,
                  {"k": "map", "x": "m1", "a": "arr", "f": "fc"}],
                 [("o1", "P0", "m1"), ("o2", "P0", "c2")], ["dup-input", "one-captured-one-output"]),
            prog([inp("arr", "arr", ("arr", SI, 3)), f, g, {"k": "map", "x": "m1", "a": "arr", "f": "f"}, {"k": "map", "x": "m2", "a": "arr", "f": "g"}],
                 [("o1", "P0", "m1"), ("o2", "P1", "m2")], ["dup-input", "only-in-function-bodies"]),
            prog([inp("arr", "arr", ("arr", SI, 3)), inp("k0", "k", SI, "P0", "outer k"), h, {"k": "map", "x": "m", "a": "arr", "f": "h"}],
                 [("o1", "P0", "m"), ("o2", "P0", "k0")], ["dup-input", "program-body-and-function-body"])]


def helper_applied_twice_in_a_nested_body():
    """a helper never used by the program body, applied twice in the body of a function that is itself only reachable
    through a reduce inside another function: each function is emitted once"""
    ROW = ("arr", SI, None)
    add = {"k": "def", "f": "add", "params": [("p", SI), ("q", SI)], "ret": SI, "body": [{"k": "bin", "x": "s", "op": "OAdd", "a": "p", "b": "q"}], "res": "s", "form": "decorator"}
    add3 = {"k": "def", "f": "add3", "params": [("acc", SI), ("a", SI)], "ret": SI,
            "body": [{"k": "call", "x": "t", "f": "add", "args": ["acc", "a"], "kwargs": []}, {"k": "call", "x": "u", "f": "add", "args": ["t", "bias"], "kwargs": []}], "res": "u", "form": "decorator"}
    rowsum = {"k": "def", "f": "rowsum", "params": [("acc", SI), ("row", ROW)], "ret": SI,
              "body": [{"k": "reduce", "x": "r", "a": "row", "f": "add3", "init": "acc"}], "res": "r", "form": "decorator"}
    return prog([inp("m", "m", ("arr", ("arr", SI, 2), 3)), inp("zero", "zero", SI), inp("bias", "bias", SI), add, add3, rowsum,
                 {"k": "reduce", "x": "total", "a": "m", "f": "rowsum", "init": "zero"}],
                [("o", "P0", "total")], ["helper-applied-twice-in-a-nested-body", "array-param"])


def same_operation_written_twice():
    """the same operation written twice on the same value objects is two operations (a cache on the value would merge them)"""
    SB_ = S("Secret", "Bool")
    return prog([inp("a", "a", SI), inp("b", "b", SI), inp("q", "q", SB_),
                 {"k": "topublic", "x": "t1", "a": "a"}, {"k": "topublic", "x": "t2", "a": "a"},
                 {"k": "topublic", "x": "u1", "a": "q"}, {"k": "topublic", "x": "u2", "a": "q"},
                 {"k": "bin", "x": "s1", "op": "OAdd", "a": "a", "b": "b"}, {"k": "bin", "x": "s2", "op": "OAdd", "a": "a", "b": "b"},
                 {"k": "not", "x": "n1", "a": "q"}, {"k": "not", "x": "n2", "a": "q"},
                 {"k": "bin", "x": "e1", "op": "OPublicEquals", "a": "a", "b": "b"}, {"k": "bin", "x": "e2", "op": "OPublicEquals", "a": "a", "b": "b"},
                 {"k": "bin", "x": "c1", "op": "OLt", "a": "a", "b": "b"}, {"k": "ifelse", "x": "i1", "c": "c1", "a": "a", "b": "b"}, {"k": "ifelse", "x": "i2", "c": "c1", "a": "a", "b": "b"},
                 {"k": "bin", "x": "d", "op": "OSub", "a": "t1", "b": "t2"}, {"k": "bin", "x": "x", "op": "OXor", "a": "u1", "b": "u2"}],
                [("o1", "P0", "t1"), ("o2", "P0", "t2"), ("o3", "P0", "u2"), ("o4", "P0", "s1"), ("o5", "P0", "s2"), ("o6", "P0", "n2"), ("o7", "P0", "n1"),
                 ("o8", "P0", "e1"), ("o9", "P0", "e2"), ("o10", "P0", "i1"), ("o11", "P0", "i2"), ("o12", "P0", "d"), ("o13", "P0", "x")],
                ["same-operation-written-twice"])


def unzip_of_a_zip_of_a_mapped_array():
    """unzip(xs.map(f).zip(ys)) and the mirrored form: rejected today (TypeError in ArrayType.to_mir); if ever accepted,
    both halves are arrays of the zip's size"""
    dbl = {"k": "def", "f": "double", "params": [("e", SI)], "ret": SI, "body": [{"k": "bin", "x": "s", "op": "OAdd", "a": "e", "b": "e"}], "res": "s", "form": "decorator"}
    out = []
    for tag, l, r in (("mapped-left", "m", "ys"), ("mapped-right", "ys", "m")):
        out.append(prog([inp("xs", "xs", ("arr", SI, 3)), inp("ys", "ys", ("arr", PI, 3)), dbl, {"k": "map", "x": "m", "a": "xs", "f": "double"},
                         {"k": "zip", "x": "z", "a": l, "b": r}, {"k": "unzip", "x": "u", "a": "z"}],
                        [("o", "P0", "u")], ["unzip-of-a-zip-of-a-mapped-array", tag]))
    return out


def explicit_types_override_annotations():
    """nada_fn(fn, args_ty=..., return_ty=...) on a function whose Python annotations say something else: the explicit
    types decide (accepted form: an annotated secret adder re-typed as a public one)"""
    d = prog([inp("ps", "ps", ("arr", PI, 3)), inp("z", "z", PI),
              {"k": "def", "f": "public_add", "params": [("acc", PI), ("x", PI)], "ret": PI, "body": [{"k": "bin", "x": "s", "op": "OAdd", "a": "acc", "b": "x"}], "res": "s", "form": "explicit"},
              {"k": "reduce", "x": "r", "a": "ps", "f": "public_add", "init": "z"}], [("o", "P0", "r")], ["annotations-vs-explicit-types", "accepted"])
    d["text"] = ("from nada_dsl import *\n\n\ndef nada_main():\n    party_P0 = Party(name='P0')\n"
                 "    ps = Array(PublicInteger(Input(name='ps', party=party_P0)), size=3)\n    z = PublicInteger(Input(name='z', party=party_P0))\n"
                 "    def public_add(acc: SecretInteger, x: SecretInteger) -> SecretInteger:\n        s = acc + x\n        return s\n"
                 "    public_add = nada_fn(public_add, args_ty={'acc': PublicInteger, 'x': PublicInteger}, return_ty=PublicInteger)\n"
                 "    r = ps.reduce(public_add, z)\n    return [Output(r, 'o', party_P0)]\n")
    return d


def objects_same_fields_other_order():
    """two objects (and two n-tuples) with the same field names and types written in different orders, mixed secrecy"""
    PI = S("Public", "Int")
    return prog([inp("s", "in_s", SI), inp("p", "in_p", PI), inp("t", "in_t", SI, "P1"), inp("q", "in_q", PI, "P1"),
                 {"k": "objnew", "x": "o1", "fs": [("amount", "s"), ("limit", "p")]},
                 {"k": "objnew", "x": "o2", "fs": [("limit", "q"), ("amount", "t")]},
                 {"k": "fld", "x": "a1", "a": "o1", "f": "amount"}, {"k": "fld", "x": "l2", "a": "o2", "f": "limit"},
                 {"k": "fld", "x": "a2", "a": "o2", "f": "amount"},
                 {"k": "bin", "x": "d", "op": "OSub", "a": "a1", "b": "l2"},
                 {"k": "ntnew", "x": "n1", "es": ["s", "p"]}, {"k": "ntnew", "x": "n2", "es": ["q", "t"]},
                 {"k": "idx", "x": "i1", "a": "n2", "i": 0}],
                [("o1", "P0", "d"), ("o2", "P1", "o2"), ("o3", "P0", "o1"), ("o4", "P1", "a2"), ("o5", "P1", "n2"), ("o6", "P0", "n1"), ("o7", "P1", "i1")],
                ["objects-same-fields-other-order"])


def literal_divisions():
    st = []
    outs = []
    pairs = [(3 * (2 ** 61 + 1), 3, "Int"), (-7, 2, "Int"), (7, -2, "Int"), (2 ** 64 + 1, 1, "UInt"), (84, 2, "Int"), (10 ** 30, 7, "UInt")]
    st.append(inp("x", "x", SI)); st.append(inp("u", "u", SU))
    for i, (a, b, base) in enumerate(pairs):
        st += [{"k": "lit", "x": f"a{i}", "b": base, "v": a}, {"k": "lit", "x": f"b{i}", "b": base, "v": b},
               {"k": "bin", "x": f"q{i}", "op": "ODiv", "a": f"a{i}", "b": f"b{i}"},
               {"k": "bin", "x": f"r{i}", "op": "OMod", "a": f"a{i}", "b": f"b{i}"},
               {"k": "bin", "x": f"s{i}", "op": "OAdd", "a": ("x" if base == "Int" else "u"), "b": f"q{i}"},
               {"k": "bin", "x": f"t{i}", "op": "OAdd", "a": f"s{i}", "b": f"r{i}"}]
        outs.append((f"o{i}", "P0", f"t{i}"))
    return prog(st, outs, ["literal-division"])


def closure_factory():
    """two closures produced by one factory (same code object, different captured value), passed as plain functions"""
    body_u = [{"k": "bin", "x": "s", "op": "OAdd", "a": "e", "b": "u"}]
    body_v = [{"k": "bin", "x": "s", "op": "OAdd", "a": "e", "b": "v"}]
    facc_u = [{"k": "bin", "x": "s", "op": "OSub", "a": "acc", "b": "u"}, {"k": "bin", "x": "t", "op": "OAdd", "a": "s", "b": "e"}]
    facc_v = [{"k": "bin", "x": "s", "op": "OSub", "a": "acc", "b": "v"}, {"k": "bin", "x": "t", "op": "OAdd", "a": "s", "b": "e"}]
    st = [inp("a", "a", ("arr", SI, 2)), inp("u", "u", SI), inp("v", "v", SI, "P1"),
          {"k": "def", "f": "add", "params": [("e", SI)], "ret": SI, "body": body_u, "res": "s", "form": "plain"},
          {"k": "map", "x": "m1", "a": "a", "f": "add"},
          {"k": "def", "f": "add", "params": [("e", SI)], "ret": SI, "body": body_v, "res": "s", "form": "plain"},
          {"k": "map", "x": "m2", "a": "a", "f": "add"},
          {"k": "def", "f": "fold", "params": [("acc", SI), ("e", SI)], "ret": SI, "body": facc_u, "res": "t", "form": "plain"},
          {"k": "reduce", "x": "r1", "a": "a", "f": "fold", "init": "u"},
          {"k": "def", "f": "fold", "params": [("acc", SI), ("e", SI)], "ret": SI, "body": facc_v, "res": "t", "form": "plain"},
          {"k": "reduce", "x": "r2", "a": "a", "f": "fold", "init": "v"}]
    text = ("from nada_dsl import *\n\n\ndef nada_main():\n    party_P0 = Party(name='P0')\n    party_P1 = Party(name='P1')\n"
            "    a = Array(SecretInteger(Input(name='a', party=party_P0)), size=2)\n"
            "    u = SecretInteger(Input(name='u', party=party_P0))\n    v = SecretInteger(Input(name='v', party=party_P1))\n"
            "    def adder(c):\n        def add(e: SecretInteger) -> SecretInteger:\n            s = e + c\n            return s\n        return add\n"
            "    def folder(c):\n        def fold(acc: SecretInteger, e: SecretInteger) -> SecretInteger:\n            s = acc - c\n            t = s + e\n            return t\n        return fold\n"
            "    m1 = a.map(adder(u))\n    m2 = a.map(adder(v))\n    r1 = a.reduce(folder(u), u)\n    r2 = a.reduce(folder(v), v)\n"
            "    return [Output(m1, 'o1', party_P0), Output(m2, 'o2', party_P0), Output(r1, 'o3', party_P1), Output(r2, 'o4', party_P1)]\n")
    d = prog(st, [("o1", "P0", "m1"), ("o2", "P0", "m2"), ("o3", "P1", "r1"), ("o4", "P1", "r2")], ["closure-factory"])
    d["text"] = text
    return d


def kwargs_reordered():
    """keyword arguments written in another order than the parameters, with parameters of different types"""
    f = {"k": "def", "f": "scale", "params": [("x", SI), ("y", PI)], "ret": SI,
         "body": [{"k": "bin", "x": "d", "op": "OMul", "a": "x", "b": "y"}], "res": "d", "form": "decorator"}
    g = {"k": "def", "f": "sub", "params": [("x", SI), ("y", SI)], "ret": SI,
         "body": [{"k": "bin", "x": "d", "op": "OSub", "a": "x", "b": "y"}], "res": "d", "form": "decorator"}
    return prog([f, g, inp("s", "s", SI), inp("q", "q", PI), inp("t", "t", SI),
                 {"k": "call", "x": "r1", "f": "scale", "args": [], "kwargs": [("y", "q"), ("x", "s")]},
                 {"k": "call", "x": "r2", "f": "sub", "args": [], "kwargs": [("y", "t"), ("x", "s")]},
                 {"k": "call", "x": "r3", "f": "scale", "args": ["s"], "kwargs": [("y", "q")]}],
                [("o1", "P0", "r1"), ("o2", "P0", "r2"), ("o3", "P1", "r3")], ["kwargs", "kwargs-reordered"])


def unzip_compound():
    """unzip whose halves have compound element types (tuples, nested arrays)"""
    return prog([inp("a", "a", ("arr", SI, 3)), inp("b", "b", ("arr", PI, 3)), inp("c", "c", ("arr", SU, 3)),
                 inp("mtx", "mtx", ("arr", ("arr", SI, 2), 3)),
                 {"k": "zip", "x": "ab", "a": "a", "b": "b"}, {"k": "zip", "x": "abc", "a": "ab", "b": "c"},
                 {"k": "unzip", "x": "u1", "a": "abc"},
                 {"k": "zip", "x": "mc", "a": "mtx", "b": "c"}, {"k": "unzip", "x": "u2", "a": "mc"},
                 {"k": "zip", "x": "ba", "a": "b", "b": "a"}, {"k": "unzip", "x": "u3", "a": "ba"},
                 {"k": "zip", "x": "bba", "a": "b", "b": "ba"}, {"k": "unzip", "x": "u4", "a": "bba"}],
                [("o1", "P0", "u1"), ("o2", "P0", "u2"), ("o3", "P1", "u3"), ("o4", "P1", "u4")], ["unzip-compound"])


def reduce_public_seed():
    """a secret fold started from a public (non-literal) seed"""
    f = {"k": "def", "f": "add", "params": [("acc", SI), ("e", SI)], "ret": SI,
         "body": [{"k": "bin", "x": "s", "op": "OAdd", "a": "acc", "b": "e"}], "res": "s", "form": "decorator"}
    return prog([inp("a", "a", ("arr", SI, 3)), inp("seed", "seed", PI), inp("w", "w", PI, "P1"), f,
                 {"k": "bin", "x": "d", "op": "OMul", "a": "seed", "b": "w"},
                 {"k": "reduce", "x": "r1", "a": "a", "f": "add", "init": "seed"},
                 {"k": "reduce", "x": "r2", "a": "a", "f": "add", "init": "d"}],
                [("o1", "P0", "r1"), ("o2", "P0", "r2")], ["reduce-public-seed"])


def rebound_closure_variable():
    """one plain def used by two map / reduce operations with a free variable rebound in between"""
    body1 = [{"k": "bin", "x": "s", "op": "OSub", "a": "e", "b": "b1"}]
    body2 = [{"k": "bin", "x": "s", "op": "OSub", "a": "e", "b": "b2"}]
    st = [inp("xs", "xs", ("arr", SI, 2)), inp("ys", "ys", ("arr", SI, 3)), inp("b1", "b1", SI), inp("b2", "b2", SI, "P1"),
          {"k": "def", "f": "add_bias", "params": [("e", SI)], "ret": SI, "body": body1, "res": "s", "form": "plain"},
          {"k": "map", "x": "m1", "a": "xs", "f": "add_bias"},
          {"k": "def", "f": "add_bias", "params": [("e", SI)], "ret": SI, "body": body2, "res": "s", "form": "plain"},
          {"k": "map", "x": "m2", "a": "ys", "f": "add_bias"}]
    text = ("from nada_dsl import *\n\n\ndef nada_main():\n    party_P0 = Party(name='P0')\n    party_P1 = Party(name='P1')\n"
            "    xs = Array(SecretInteger(Input(name='xs', party=party_P0)), size=2)\n"
            "    ys = Array(SecretInteger(Input(name='ys', party=party_P0)), size=3)\n"
            "    b1 = SecretInteger(Input(name='b1', party=party_P0))\n    b2 = SecretInteger(Input(name='b2', party=party_P1))\n"
            "    bias = b1\n"
            "    def add_bias(e: SecretInteger) -> SecretInteger:\n        s = e - bias\n        return s\n"
            "    m1 = xs.map(add_bias)\n    bias = b2\n    m2 = ys.map(add_bias)\n"
            "    return [Output(m1, 'o1', party_P0), Output(m2, 'o2', party_P1)]\n")
    d = prog(st, [("o1", "P0", "m1"), ("o2", "P1", "m2")], ["rebound-closure"])
    d["text"] = text
    return d


def all_families():
    return [nested_capture(), reduce_computed_initial(), shared_function_two_sites(), function_calls_function(),
            compound_types(), array_param(), size_zero_array(), helper_from_two_functions(), same_value_two_types(),
            map_zip_mixed(), public_returning_function(), literal_param_fold(), kwargs_call(), noncommutative_mix(), function_body_literal(),
            inner_public_secret(), inner_int_uint(), untruthful_annotation(), secret_flows(), signatures(), output_of_function(),
            dup_inputs("same-party"), dup_inputs("same-party-diff-type"), dup_inputs("diff-party"), dup_inputs("diff-party-one-dead"),
            dup_inputs("same-party-one-dead"), literal_array_inner(), object_key_order(), literal_divisions(),
            closure_factory(), kwargs_reordered(), unzip_compound(), reduce_public_seed(), rebound_closure_variable(), explicit_types_reordered(), objects_same_fields_other_order(), dup_inputs_one_line('comprehension'), dup_inputs_one_line('helper'), matrix_params_two_element_types(),
            declassifying_function_mapped(), row_function_over_two_matrices(), array_returning_function(), call_chain_depth_four(),
            operations_shared_between_tables(), same_output_name_to_several_parties(), attribute_like_field_names(), literal_used_as_seed_and_operand(), literals_of_equal_python_values(), helper_applied_twice_in_a_nested_body(), same_operation_written_twice(), explicit_types_override_annotations()] + unzip_of_a_zip_of_a_mapped_array() + names_with_blanks_and_shared_names() + dup_inputs_only_in_function_bodies() + random_draws_made_by_one_line() + operator_pairs() + rejected_functions() + wrong_arity_calls()
