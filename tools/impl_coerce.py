"""Every Python truth-value / ordering / membership / iteration route on real Nada objects of
every class and provenance.  Prints JSON cells: [class, route, construct, provenance, outcome]."""
import json
import sys
from nada_dsl import *     # noqa

party = Party("P")
n = [0]
SCALARS = [PublicInteger, PublicUnsignedInteger, PublicBoolean, SecretInteger, SecretUnsignedInteger, SecretBoolean]


def inp(cls):
    n[0] += 1
    return cls(Input(name=f"i{n[0]}", party=party))


def scalar(cls, prov):
    if prov == "input":
        return inp(cls)
    if prov == "opres":
        x = inp(cls)
        return (~x) if cls in (PublicBoolean, SecretBoolean) else (x + x)
    if prov == "ntuple":
        return NTuple.new([inp(cls), inp(SecretInteger)])[0]
    if prov == "object":
        return Object.new({"k": inp(cls)}).k
    raise ValueError(prov)


def collection(kind, prov):
    def base():
        if kind == "Array":
            return Array(inp(SecretInteger), size=3)
        if kind == "Tuple":
            return Tuple.new(inp(SecretInteger), inp(PublicInteger))
        if kind == "NTuple":
            return NTuple.new([inp(SecretInteger), inp(PublicInteger)])
        if kind == "Object":
            return Object.new({"a": inp(SecretInteger)})
    if prov == "direct":
        return base()
    if prov in ("new", "new-public", "new-literal"):
        if kind != "Array":
            return None
        if prov == "new":
            return Array.new(inp(SecretInteger), inp(SecretInteger))
        if prov == "new-public":
            return Array.new(inp(PublicInteger), inp(PublicInteger))
        return Array.new(Integer(1), Integer(2))
    if prov == "map":
        if kind != "Array":
            return None
        f = nada_fn(lambda e: e + e, args_ty={"e": SecretInteger}, return_ty=SecretInteger)
        return Array(inp(SecretInteger), size=3).map(f)
    if prov == "ntuple":
        if kind == "Tuple":
            return None
        return NTuple.new([base(), inp(SecretInteger)])[0]
    if prov == "object":
        if kind == "Tuple":
            return None
        return Object.new({"k": base()}).k
    if prov == "opres":
        if kind == "Array":
            a = Array(inp(SecretInteger), size=3)
            return a.zip(a)
        if kind == "Tuple":
            a = Array(inp(SecretInteger), size=3)
            return unzip(a.zip(a))
        return None


def constructs():
    def c_if(x, y):
        if x:
            return 1
        return 2

    def c_while(x, y):
        while x:
            return 1
        return 2

    def c_assert(x, y):
        assert x
        return 1
    return [
        ("RTruth", "if", c_if), ("RTruth", "while", c_while), ("RTruth", "not", lambda x, y: not x),
        ("RTruth", "and", lambda x, y: x and 1), ("RTruth", "or", lambda x, y: x or 1), ("RTruth", "assert", c_assert),
        ("RTruth", "bool", lambda x, y: bool(x)), ("RTruth", "ifexp", lambda x, y: 1 if x else 2),
        ("RTruth", "any", lambda x, y: any([x])), ("RTruth", "all", lambda x, y: all([x])),
        ("RTruth", "filter", lambda x, y: list(filter(None, [x]))),
        ("RChained", "a<b<c", lambda x, y: x < y < x), ("RChained", "a<=b>c", lambda x, y: x <= y > x),
        ("RMinMax", "min", lambda x, y: min(x, y)), ("RMinMax", "max", lambda x, y: max(x, y)),
        ("RMinMax", "sorted", lambda x, y: sorted([x, y])), ("RMinMax", "list.sort", lambda x, y: [x, y].sort()),
        ("RMember", "in-list", lambda x, y: x in [y]), ("RMember", "in-tuple", lambda x, y: x in (y,)),
        ("RMember", "not-in", lambda x, y: x not in [y]), ("RMember", "list.count", lambda x, y: [y].count(x)),
        ("RMember", "==-as-condition", lambda x, y: 1 if x == y else 2), ("RMember", "!=-as-condition", lambda x, y: 1 if x != y else 2),
        # membership decided by hashing before (or instead of) equality
        ("RMember", "in-set", lambda x, y: x in {y}), ("RMember", "in-dict", lambda x, y: x in {y: 1}),
        ("RMember", "dict.get", lambda x, y: {y: 1}.get(x, 2)), ("RMember", "set-intersection", lambda x, y: {y} & {x}),
        ("RMember", "in-frozenset", lambda x, y: x in frozenset([y])),
        ("RIter", "for", lambda x, y: [e for e in x]), ("RIter", "list()", lambda x, y: list(x)),
        ("RIter", "unpack", lambda x, y: (lambda *a: a)(*x)), ("RIter", "iter()", lambda x, y: iter(x)),
        ("RIter", "sum", lambda x, y: sum(x)), ("RIter", "enumerate", lambda x, y: list(enumerate(x))),
        ("RIter", "zip", lambda x, y: list(zip(x, y))), ("RIter", "contains", lambda x, y: y in x),
        ("RIter", "max-key", lambda x, y: max(x, key=id)), ("RIter", "tuple()", lambda x, y: tuple(x)),
    ]


def outcome(fn, x, y):
    try:
        r = fn(x, y)
    except Exception as e:     # noqa
        return "raises:" + type(e).__name__
    return "silent:" + type(r).__name__


def in_function(cls, fn):
    out = []

    def body(p, q, d):
        out.append(outcome(fn, p, q))
        return d
    try:
        nada_fn(lambda p, q, d: body(p, q, d), args_ty={"p": cls, "q": cls, "d": SecretInteger}, return_ty=SecretInteger)
    except Exception as e:   # noqa
        if not out:
            return "harness:" + type(e).__name__
    return out[0]


cells = []
for route, name, fn in constructs():
    for cls in SCALARS:
        for prov in ("input", "opres", "ntuple", "object"):
            cells.append([cls.__name__, route, name, prov, outcome(fn, scalar(cls, prov), scalar(cls, prov))])
        cells.append([cls.__name__, route, name, "param", in_function(cls, fn)])
    for kind in ("Array", "Tuple", "NTuple", "Object"):
        for prov in ("direct", "ntuple", "object", "opres", "new", "new-public", "new-literal", "map"):
            x, y = collection(kind, prov), collection(kind, prov)
            if x is None:
                continue
            if kind != "Array" and name in ("sum", "enumerate", "zip", "contains", "max-key", "tuple()"):
                continue      # iterating a tuple / object is not constrained by C07 (elements are operations, not secrets' values)
            cells.append([kind, route, name, prov, outcome(fn, x, y)])
# is a scalar value AMONG the components of a collection?  (`e in t`: no collection may answer, by equality or by identity)
for kind in ("Array", "Tuple", "NTuple", "Object"):
    for prov in ("direct", "opres", "new"):
        x = collection(kind, prov)
        if x is None:
            continue
        for ename, e in (("another-input", scalar(SecretInteger, "input")), ("an-operation-result", scalar(SecretInteger, "opres"))):
            cells.append([kind, "RMember", "scalar-in-collection:" + ename, prov, outcome(lambda a, b: b in a, x, e)])
            cells.append([kind, "RMember", "scalar-not-in-collection:" + ename, prov, outcome(lambda a, b: b not in a, x, e)])
# comparisons / membership against plain Python values, both operand orders
PLAIN = {"int": 0, "int1": 1, "bool": True, "none": None, "str": "a", "float": 0.5}
PCONS = [
    ("RChained", "x<p<x", lambda x, p: x < p < x), ("RChained", "p<x<p", lambda x, p: p < x < p),
    ("RMinMax", "min(x,p)", lambda x, p: min(x, p)), ("RMinMax", "max(p,x)", lambda x, p: max(p, x)),
    ("RMinMax", "sorted", lambda x, p: sorted([x, p])),
    ("RMember", "x==p", lambda x, p: 1 if x == p else 2), ("RMember", "p==x", lambda x, p: 1 if p == x else 2),
    ("RMember", "x!=p", lambda x, p: 1 if x != p else 2), ("RMember", "p!=x", lambda x, p: 1 if p != x else 2),
    ("RMember", "x in [p]", lambda x, p: x in [p, p]), ("RMember", "p in [x]", lambda x, p: p in [x]),
    ("RMember", "[p].count(x)", lambda x, p: [p].count(x)), ("RMember", "x not in (p,)", lambda x, p: x not in (p,)),
]
pcells = []
for route, name, fn in PCONS:
    for pname, pv in PLAIN.items():
        for cls in SCALARS:
            for prov in ("input", "opres", "ntuple", "object"):
                pcells.append([cls.__name__, route, name, prov, pname, outcome(fn, scalar(cls, prov), pv)])
        for kind in ("Array", "Tuple", "NTuple", "Object"):
            x = collection(kind, "direct")
            pcells.append([kind, route, name, "direct", pname, outcome(fn, x, pv)])
json.dump({"cells": cells, "pcells": pcells}, sys.stdout)
