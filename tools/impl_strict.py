"""C14: for each strict-subset program, the types the strict checker assigns to every node (static) and the classes
of the values bound there when the program is executed under the audit classes (dynamic).
stdin: JSON list of source texts; stdout: JSON list of records."""
import ast
import json
import signal
import sys

from nada_dsl.audit.report import parse

def show_type(t):
    """the harness's own spelling of an inferred type (independent of the report's type_to_str):
    classes by name, list[T] recursively, type errors by their message"""
    import types as _types
    if isinstance(t, TypeError):
        return "TypeError: " + str(t)
    if isinstance(t, _types.GenericAlias) and t.__origin__ is list:
        return "list[" + show_type(t.__args__[0]) + "]"
    if isinstance(t, type):
        return t.__name__
    import typing as _typing, collections.abc as _abc
    if _typing.get_origin(t) is _abc.Callable:
        return "Callable"      # the type given to a defined function's name
    return "TypeError: type cannot be determined"


from nada_dsl.audit.common import SyntaxRestriction, RuleInAncestor, TypeInParent
import nada_dsl.audit as audit_pkg
S = sys.modules["nada_dsl.audit.strict"]


def key(n):
    return f"{type(n).__name__}@{n.lineno}:{n.col_offset}-{getattr(n, 'end_lineno', 0)}:{getattr(n, 'end_col_offset', 0)}"


def tname(v):
    if isinstance(v, list):
        inner = sorted({tname(x) for x in v})
        return "list" if not inner else "list[" + "|".join(inner) + "]"
    if v is None:
        return "NoneType"
    return type(v).__name__


class Wrap(ast.NodeTransformer):
    """wrap every expression in load position with __rec__(key, expr)"""
    def __init__(self, keys):
        self.keys = keys

    def visit(self, node):
        node = self.generic_visit(node)
        if isinstance(node, ast.expr) and isinstance(getattr(node, "ctx", ast.Load()), ast.Load) and hasattr(node, "lineno"):
            k = key(node)
            if k in self.keys:
                return ast.copy_location(ast.Call(ast.Name("__rec__", ast.Load()), [ast.Constant(k), node], []), node)
        return node

    def visit_AnnAssign(self, node):
        if node.value is not None:
            node.value = self.visit(node.value)
        return node

    def visit_FunctionDef(self, node):
        node.body = [self.visit(s) for s in node.body]
        return node

    def visit_keyword(self, node):
        node.value = self.visit(node.value)
        return node

    def visit_Call(self, node):
        # do not wrap the callee expression itself when it is a plain name / attribute (Party, x.append, ...)
        node.args = [self.visit(a) for a in node.args]
        node.keywords = [self.visit_keyword(k) for k in node.keywords]
        if isinstance(node.func, ast.Attribute):
            node.func.value = self.visit(node.func.value)
        k = key(node)
        if k in self.keys:
            return ast.copy_location(ast.Call(ast.Name("__rec__", ast.Load()), [ast.Constant(k), node], []), node)
        return node


class Timeout(Exception):
    pass


def on_alarm(s, f):
    raise Timeout()


signal.signal(signal.SIGALRM, on_alarm)


def run_one(src):
    rec = {}
    src = src.strip()
    atok, skips = parse(src)
    root = atok.tree
    S.rules(root)
    S.types(root)
    static = {}
    nerr = nrestr = 0
    for n in ast.walk(root):
        au = getattr(n, "_audits", {})
        r, t = au.get("rules"), au.get("types")
        if isinstance(r, SyntaxRestriction) and hasattr(n, "lineno") and not isinstance(n, (ast.expr_context,)):
            nrestr += 1
        if isinstance(t, TypeError):
            nerr += 1
        if isinstance(n, ast.expr) and hasattr(n, "lineno") and t is not None and not isinstance(t, (TypeError, TypeInParent)) \
                and not isinstance(r, (SyntaxRestriction, RuleInAncestor)):
            static[key(n)] = show_type(t)
    rec["static"] = static
    rec["type_errors"] = nerr
    rec["restrictions"] = nrestr
    rec["skipped_lines"] = len(skips)
    # ---- dynamic: the same text executed under the audit classes
    dyn = {}

    def __rec__(k, v):
        dyn.setdefault(k, set()).add(tname(v))
        return v
    tree = ast.parse(src)
    if tree.body and isinstance(tree.body[0], ast.ImportFrom) and tree.body[0].module == "nada_dsl":
        tree.body[0].module = "nada_dsl.audit"
    tree = Wrap(set(static)).visit(tree)
    ast.fix_missing_locations(tree)
    ns = {"__rec__": __rec__}
    rec["dynamic_outcome"] = "ok"
    signal.alarm(5)
    try:
        exec(compile(tree, "<audited>", "exec"), ns)
        audit_pkg.Abstract.initialize()
        ns["nada_main"]()
    except Timeout:
        rec["dynamic_outcome"] = "timeout"
    except Exception as e:    # noqa
        rec["dynamic_outcome"] = "raise:" + type(e).__name__ + ":" + str(e)[:80]
    finally:
        signal.alarm(0)
    rec["dynamic"] = {k: sorted(v) for k, v in dyn.items()}
    return rec


out = []
for t in json.load(sys.stdin):
    try:
        out.append(run_one(t))
    except Exception as e:   # noqa  -- the static phase itself failed (a C16 matter)
        out.append({"static_failed": type(e).__name__ + ":" + str(e)[:100]})
json.dump(out, sys.stdout)
