"""Runs the REAL scalar classes of $PYTHONPATH's nada_dsl on every operator x type tuple x
provenance and prints one JSON document: cells grouped by (op, types) with the set of
distinct outcome codes seen over the provenances.

usage: impl_scalar.py <mode>     mode = quick | thorough
"""
import itertools
import json
import sys

from nada_dsl import *            # noqa
import nada_dsl.ast_util as au

MODES = ["Const", "Public", "Secret"]
BASES = ["Bool", "Int", "UInt"]
CLS = {("Const", "Int"): Integer, ("Const", "UInt"): UnsignedInteger, ("Const", "Bool"): Boolean,
       ("Public", "Int"): PublicInteger, ("Public", "UInt"): PublicUnsignedInteger, ("Public", "Bool"): PublicBoolean,
       ("Secret", "Int"): SecretInteger, ("Secret", "UInt"): SecretUnsignedInteger, ("Secret", "Bool"): SecretBoolean}
TYPES = [(m, b) for m in MODES for b in BASES]
party = Party("P")
counter = [0]

BINOPS = {
    "OAdd": lambda a, b: a + b, "OSub": lambda a, b: a - b, "OMul": lambda a, b: a * b,
    "ODiv": lambda a, b: a / b, "OMod": lambda a, b: a % b, "OPow": lambda a, b: a ** b,
    "OLShift": lambda a, b: a << b, "ORShift": lambda a, b: a >> b,
    "OLt": lambda a, b: a < b, "OGt": lambda a, b: a > b, "OLe": lambda a, b: a <= b, "OGe": lambda a, b: a >= b,
    "OEq": lambda a, b: a == b, "ONe": lambda a, b: a != b,
    "OAnd": lambda a, b: a & b, "OOr": lambda a, b: a | b, "OXor": lambda a, b: a ^ b,
    "OPublicEquals": lambda a, b: a.public_equals(b), "OTruncPr": lambda a, b: a.trunc_pr(b),
}
VALS = [7, 3, 5]


def fresh_input(cls):
    counter[0] += 1
    return cls(Input(name=f"in{counter[0]}", party=party))


def base_value(t, idx):
    cls = CLS[t]
    if t[0] == "Const":
        v = VALS[idx]
        return cls(bool(v) if t[1] == "Bool" else v)
    return fresh_input(cls)


def make(t, prov, idx):
    """Operand number idx of type t built through provenance prov; returns (value, keeps_value)."""
    cls = CLS[t]
    if prov == "direct":           # literal for const types, input otherwise
        return base_value(t, idx)
    if prov == "opres":
        if t[0] == "Const":
            v = VALS[idx]
            if t[1] == "Bool":
                return Boolean(True) & Boolean(bool(v))
            return cls(v - 1) + cls(1)
        x = fresh_input(cls)
        if t[1] == "Bool":
            return ~x
        return x + x
    if prov == "ntuple":
        return NTuple.new([base_value(t, idx), fresh_input(SecretInteger)])[0]
    if prov == "object":
        return Object.new({"k": base_value(t, idx)}).k
    raise ValueError(prov)


def code_of(result, operands, keep_value):
    for i, o in enumerate(operands):
        if result is o:
            return ["S", i]
    if isinstance(result, NadaType) and type(result) in CLS.values():
        cname = type(result).__name__
        ch = result.child
        if type(ch).__name__ == "Literal":
            v = result.value
            return ["F", cname, (int(v) if keep_value else None)]
        roles = []
        for attr in ("left", "right", "this", "child", "arg_0", "arg_1"):
            x = getattr(ch, attr, None)
            for i, o in enumerate(operands):
                if x is o:
                    roles.append([attr, i])
        ty = au.AST_OPERATIONS[ch.id].ty
        return ["E", cname, type(ch).__name__, roles, ty if isinstance(ty, str) else json.dumps(ty)]
    return ["N", type(result).__name__]


def apply(fn, operands, keep_value):
    try:
        r = fn(*operands)
    except Exception as e:       # noqa
        return ["R", type(e).__name__]
    return code_of(r, operands, keep_value)


def in_function(types, fn):
    """Run fn on operands that are nada_fn parameters of the given types."""
    out = []
    names = [f"p{i}" for i in range(len(types))]

    def body(*args):
        ps = args[:len(types)]
        out.append(apply(fn, list(ps), False))
        return args[-1]
    src = f"def traced({', '.join(names)}, dummy):\n    return body({', '.join(names)}, dummy)\n"
    ns = {"body": body}
    exec(src, ns)
    args_ty = {n: CLS[t] for n, t in zip(names, types)}
    args_ty["dummy"] = SecretInteger
    try:
        nada_fn(ns["traced"], args_ty=args_ty, return_ty=SecretInteger)
    except Exception as e:      # noqa
        if not out:
            return ["X", type(e).__name__]
    return out[0]


def main():
    mode = sys.argv[1]
    provs = ["direct", "opres", "ntuple", "object"]
    cells = {}
    nevals = 0
    hist = {}

    def record(key, prov, code):
        nonlocal nevals
        nevals += 1
        c = json.dumps(code)
        d = cells.setdefault(key, {})
        d.setdefault(c, []).append(prov)
        hist[code[0]] = hist.get(code[0], 0) + 1

    pairs = list(itertools.product(provs, provs))
    for op, fn in BINOPS.items():
        for t1 in TYPES:
            for t2 in TYPES:
                key = json.dumps([op, t1, t2])
                for p1, p2 in pairs:
                    ops = [make(t1, p1, 0), make(t2, p2, 1)]
                    record(key, f"{p1}/{p2}", apply(fn, ops, True))
                record(key, "param/param", in_function([t1, t2], fn))
                # one literal operand next to a non-literal one: the outcome is a matter of types, not of the literal's value
                if (t1[0] == "Const") != (t2[0] == "Const"):
                    for v in (0, 1, -1, 2, -7, 2 ** 70):
                        if v < 0 and "UInt" in (t1[1] if t1[0] == "Const" else t2[1]):
                            continue
                        try:
                            lit = lambda t: CLS[t](bool(v) if t[1] == "Bool" else v)     # noqa
                            ops = [lit(t1) if t1[0] == "Const" else make(t1, "direct", 0), lit(t2) if t2[0] == "Const" else make(t2, "direct", 1)]
                        except Exception:      # noqa  (a literal that cannot be built is not an operand)
                            continue
                        record(key, f"literal={v}", apply(fn, ops, True))
    # if_else
    triples_provs = [(p, p, p) for p in provs] if mode == "quick" else list(itertools.product(provs, repeat=3))
    ife = lambda c, a, b: c.if_else(a, b)     # noqa
    for c in TYPES:
        for a in TYPES:
            for b in TYPES:
                key = json.dumps(["IfElse", c, a, b])
                for pc, pa, pb in triples_provs:
                    ops = [make(c, pc, 0), make(a, pa, 1), make(b, pb, 2)]
                    record(key, f"{pc}/{pa}/{pb}", apply(ife, ops, True))
                record(key, "param/param/param", in_function([c, a, b], ife))
    for t in TYPES:
        for name, fn in (("UInvert", lambda x: ~x), ("UToPublic", lambda x: x.to_public())):
            key = json.dumps([name, t])
            for p in provs:
                record(key, p, apply(fn, [make(t, p, 0)], True))
            record(key, "param", in_function([t], fn))
        key = json.dumps(["Random", t])
        record(key, "class", apply(lambda: CLS[t].random(), [], True))
        # int + x  (sum / reflected add)
        for k in (0, 5):
            key = json.dumps(["RAdd", t, k])
            for p in provs:
                record(key, p, apply(lambda x, k=k: k + x, [make(t, p, 1)], True))
    json.dump({"cells": [[json.loads(k), [[json.loads(c), ps] for c, ps in v.items()]] for k, v in cells.items()],
               "evaluations": nevals, "histogram": hist, "provenances": provs + ["param"]}, sys.stdout)


main()
