"""Shared driver library for the ./check entry point.

Protocol (DESIGN.md 2.4):  extract -> prove -> tie (correspondence) -> validate -> decide.
Every subprocess runs under a timeout; infrastructure failures are retried once and are
never printed as VIOLATION lines.
"""
import hashlib
import json
import os
import sys as _sys
import re
import shutil
import subprocess
import sys
import time

_sys.set_int_max_str_digits(0)     # results of the implementation may be huge integers
VERIF = os.path.dirname(os.path.dirname(os.path.abspath(__file__)))
COQ = os.path.join(VERIF, "coq")
REPO = os.environ.get("VERIF_REPO", "/repo")
PY = "/venv/bin/python"
GUARD = "NILLIONNETWORK_NADA_DSL_VERIF"
NCPU = 16

QFLAGS = ["-Q", "PyMini", "NadaV.PyMini", "-Q", "Gen", "NadaV.Gen", "-Q", "Model", "NadaV.Model",
          "-Q", "Spec", "NadaV.Spec", "-Q", "Proofs", "NadaV.Proofs", "-Q", "Properties", "NadaV.Properties",
          "-Q", "Cases", "NadaV.Cases", "-w", "-notation-overridden,-deprecated-hint-without-locality"]

FORBIDDEN = re.compile(
    r"\b(Admitted|admit|Axiom|Axioms|Parameter|Parameters|Conjecture|Conjectures|Hypothesis|Hypotheses|Variable|Variables)\b"
    r"|Unset\s+Guard|Unset\s+Positivity|Unset\s+Universe|bypass_check|type-in-type|Admit\s+Obligations")

ALLOWED_AXIOMS = set()     # the development is expected to be closed under the global context


def impl_env(extra=None):
    env = dict(os.environ)
    env["PYTHONPATH"] = REPO
    env["PYTHONHASHSEED"] = "0"
    env["PYTHONDONTWRITEBYTECODE"] = "1"
    env[GUARD] = "1"
    env.pop("NADA_TIMER", None)
    if extra:
        env.update(extra)
    return env


def run(cmd, timeout, cwd=None, env=None, input=None):
    """run a command in its own process group; on timeout the WHOLE group is killed (a `make` that is killed alone
    leaves its coqc children running - one grew to 43 GB on a seeded change before this was done)"""
    import signal
    t0 = time.time()
    p = subprocess.Popen(cmd, cwd=cwd, env=env, stdin=subprocess.PIPE if input is not None else subprocess.DEVNULL,
                         stdout=subprocess.PIPE, stderr=subprocess.PIPE, text=True, start_new_session=True)
    try:
        out, err = p.communicate(input, timeout=timeout)
        return p.returncode, out, err, time.time() - t0
    except subprocess.TimeoutExpired:
        try:
            os.killpg(p.pid, signal.SIGKILL)
        except ProcessLookupError:
            pass
        try:
            out, err = p.communicate(timeout=30)
        except Exception:      # noqa
            out, err = "", ""
        return 124, out or "", (err or "") + "\nTIMEOUT", time.time() - t0


def clean_noise(s):
    return "\n".join(l for l in s.splitlines() if "WARNING conda" not in l)


# ------------------------------------------------------------------ steps

class Ctx:
    def __init__(self, prop, tier, seed):
        self.prop, self.tier, self.seed = prop, tier, seed
        self.t0 = time.time()
        self.notes = []
        self.broken = []          # list of dicts {kind, what, detail}
        self.violations = []      # list of dicts {key, what, replay}
        self.known = []           # KNOWN-FINDING lines
        self.cov = {}
        self.work = os.path.join(VERIF, "work", prop)
        os.makedirs(self.work, exist_ok=True)

    def note(self, s):
        self.notes.append(s)
        print(f"[{self.prop}] {s}", flush=True)


def step_extract(ctx):
    rc, out, err, dt = run([PY, os.path.join(VERIF, "tools", "extract.py"), REPO, os.path.join(COQ, "Gen")],
                           timeout=120, env=impl_env())
    out = clean_noise(out)
    if rc != 0:
        ctx.broken.append(dict(kind="extractor", what="tools/extract.py failed on the current tree",
                               detail=(out + clean_noise(err))[-2000:]))
        ctx.note(f"extract: BROKEN ({out.strip()[-300:]})")
        return False
    ctx.untranslated = [l for l in out.splitlines() if l.startswith("untranslated:")]
    ctx.note(f"extract: ok ({len(ctx.untranslated)} bodies outside the fragment, {dt:.1f}s)")
    if not step_support(ctx):
        ctx.broken.append(dict(kind="extractor", what="a regenerated Gen/*.v file does not compile", detail=""))
        ctx.note("extract: regenerated Gen does not compile")
        return False
    return True


def coq_files():
    files = []
    for d in ("PyMini", "Gen", "Model", "Spec", "Proofs", "Properties"):
        p = os.path.join(COQ, d)
        if not os.path.isdir(p):
            continue
        for root, _, fs in os.walk(p):
            for f in sorted(fs):
                if f.endswith(".v"):
                    files.append(os.path.relpath(os.path.join(root, f), COQ))
    return sorted(files)


def ensure_makefile():
    files = coq_files()
    listing = "\n".join(files)
    stamp = os.path.join(COQ, ".filelist")
    old = open(stamp).read() if os.path.exists(stamp) else None
    if old != listing or not os.path.exists(os.path.join(COQ, "Makefile")):
        rc, out, err, _ = run(["coq_makefile", "-f", "_CoqProject"] + files + ["-o", "Makefile"], 60, cwd=COQ)
        if rc != 0:
            raise RuntimeError("coq_makefile failed: " + err)
        with open(stamp, "w") as f:
            f.write(listing)


# every coqc started by make may use at most 24 GB of address space: a proof that blows up fails instead of
# taking the machine down
MAKE = ["bash", "-c", "ulimit -v 24000000; exec make -j %d \"$@\"" % NCPU, "make"]


def make_target(target, timeout=420):
    ensure_makefile()
    return run(MAKE + [target], timeout, cwd=COQ)


def grep_forbidden():
    hits = []
    for f in coq_files():
        if f.startswith("Gen/"):
            pass
        txt = open(os.path.join(COQ, f), encoding="utf-8").read()
        # strip comments (non-nested is enough for our sources; nested handled by loop)
        prev = None
        while prev != txt:
            prev = txt
            txt = re.sub(r"\(\*[^()*]*(?:\*(?!\))[^()*]*|\((?!\*)[^()*]*|\)[^()*]*)*\*\)", " ", txt)
        txt = re.sub(r'"(?:[^"]|"")*"', '""', txt)
        for m in FORBIDDEN.finditer(txt):
            # Variable/Hypothesis are allowed inside a Section
            w = m.group(0)
            if w.split()[0] in ("Variable", "Variables", "Hypothesis", "Hypotheses"):
                before = txt[:m.start()]
                if len(re.findall(r"\bSection\s+\w+", before)) > len(re.findall(r"\bEnd\s+\w+\s*\.", before)):
                    continue
            hits.append(f"{f}: {w}")
    return hits


def step_support(ctx):
    """build everything the case files import: PyMini, Model, Spec (independent of Gen) and Gen itself"""
    targets = [f[:-2] + ".vo" for f in coq_files() if f.split("/")[0] in ("PyMini", "Model", "Spec")]
    ensure_makefile()
    rc, out, err, dt = run(MAKE + targets, 900, cwd=COQ)
    if rc != 0:
        raise RuntimeError("building Model/Spec failed: " + clean_noise(out + err)[-1500:])
    gen = [f[:-2] + ".vo" for f in coq_files() if f.startswith("Gen/")]
    rc, out, err, dt = run(MAKE + ["-k"] + gen, 900, cwd=COQ)
    return rc == 0


def step_prove(ctx, props_file=None):
    """Build Properties/<prop>.vo, collect the theorem names, Print Assumptions output."""
    pf = props_file or f"Properties/{ctx.prop}.v"
    vo = pf[:-2] + ".vo"
    # force re-check of the property file itself so that its Print Assumptions output is captured
    for ext in (".vo", ".vok", ".vos", ".glob"):
        p = os.path.join(COQ, pf[:-2] + ext)
        if os.path.exists(p):
            os.remove(p)
    rc, out, err, dt = make_target(vo)
    log = clean_noise(out + "\n" + err)
    with open(os.path.join(ctx.work, "make.log"), "w") as f:
        f.write(log)
    src = open(os.path.join(COQ, pf), encoding="utf-8").read()
    theorems = re.findall(r"^\s*(?:Theorem|Lemma|Corollary|Example)\s+(\w+)", src, re.M)
    ctx.cov["obligations"] = len(theorems)
    ctx.cov["theorems"] = theorems
    if rc != 0:
        m = re.search(r'File "([^"]+)", line (\d+)[^\n]*\n(?:.*\n)*?Error:(.*(?:\n.*){0,12})', log)
        where = f"{m.group(1)}:{m.group(2)}" if m else "?"
        msg = (m.group(3).strip() if m else log[-1500:])
        if rc == 124:
            where, msg = "build", "make timed out"
        ctx.broken.append(dict(kind="proof", what=f"proof obligation no longer checks at {where}", detail=msg[:3000]))
        ctx.cov["discharged"] = 0
        ctx.note(f"prove: BROKEN at {where} ({dt:.1f}s)")
        return False
    # Print Assumptions audit
    closed = len(re.findall(r"Closed under the global context", log))
    axioms = re.findall(r"^Axioms:\n((?:.+\n)+?)(?=\S|\Z)", log, re.M)
    n_pa = len(re.findall(r"^\s*Print Assumptions", src, re.M))
    ctx.cov["print_assumptions"] = {"requested": n_pa, "closed": closed, "axioms": axioms}
    bad = []
    if axioms:
        bad.append("Print Assumptions reports axioms: " + " | ".join(a.strip() for a in axioms))
    if closed < n_pa:
        bad.append(f"only {closed} of {n_pa} Print Assumptions are closed")
    hits = grep_forbidden()
    if hits:
        bad.append("forbidden vernacular: " + ", ".join(hits[:10]))
    if bad:
        ctx.broken.append(dict(kind="proof-audit", what="; ".join(bad), detail=""))
        ctx.cov["discharged"] = 0
        ctx.note("prove: AUDIT FAILED " + "; ".join(bad))
        return False
    ctx.cov["discharged"] = len(theorems)
    ctx.note(f"prove: ok, {len(theorems)} theorems, {closed} Print Assumptions closed ({dt:.1f}s)")
    return True


def run_coqchk(ctx, vo_module):
    rc, out, err, dt = run(["coqchk", "-silent", "-o"] + QFLAGS[:-2] + [vo_module], 1800, cwd=COQ)
    txt = clean_noise(out + err)
    ctx.cov["coqchk"] = {"rc": rc, "tail": txt[-1500:], "wall_s": round(dt, 1)}
    if rc != 0:
        ctx.broken.append(dict(kind="coqchk", what="coqchk failed", detail=txt[-2000:]))
        return False
    return True


def eval_cases(ctx, name, text, timeout=600):
    """Compile a generated Cases/<name>.v and return the lines printed by [Eval]s as a list of
    (already joined) result strings."""
    d = os.path.join(COQ, "Cases")
    os.makedirs(d, exist_ok=True)
    path = os.path.join(d, name + ".v")
    with open(path, "w", encoding="utf-8") as f:
        f.write(text)
    for attempt in (0, 1):
        rc, out, err, dt = run(["bash", "-c", "ulimit -v 12000000; exec coqc -noglob \"$@\"", "coqc"] + QFLAGS + [path],
                               timeout, cwd=COQ)
        if rc == 0 or rc not in (124, 137, -9):
            break
    return rc, clean_noise(out), clean_noise(err), dt


def parse_evals(out):
    """Split coqc stdout into the results of successive `Eval ... in` commands:
    each starts with '     = ' and ends before '     : type'."""
    res = []
    cur = None
    for line in out.splitlines():
        if line.startswith("     = "):
            cur = [line[7:]]
        elif line.startswith("     : ") and cur is not None:
            res.append(" ".join(s.strip() for s in cur))
            cur = None
        elif cur is not None:
            cur.append(line)
    return res


def parse_zlist(s):
    s = s.strip()
    if s in ("[]", "nil"):
        return []
    assert s.startswith("[") and s.endswith("]"), s
    return [int(x.replace("%Z", "").replace("%nat", "").strip()) for x in s[1:-1].split(";") if x.strip()]


# ---------------------------------------------------------- Gallina printers

def gstr(s):
    out = []
    for ch in s:
        if ch == '"':
            out.append('""')
        elif 32 <= ord(ch) <= 126:
            out.append(ch)
        else:
            out.append("?")
    return '"' + "".join(out) + '"'


def gz(n):
    n = int(n)
    if abs(n) < (1 << 62):
        return f"({n})%Z"
    return "(%s0x%x)%%Z" % ("-" if n < 0 else "", abs(n))      # hex numerals parse in linear time


def glist(xs):
    return "[" + "; ".join(xs) + "]"


# ------------------------------------------------------------ findings

def load_known():
    p = os.path.join(VERIF, "known-findings.json")
    if not os.path.exists(p):
        return []
    return json.load(open(p))


def replay_case(ctx):
    """the `case` of the replay file given with --replay (None without one).  A check that knows how to re-run a
    single case uses it as its whole population; the others re-run their full exploration (which contains the case)."""
    if not getattr(ctx, "replay", None):
        return None
    try:
        d = json.load(open(ctx.replay))
    except Exception as e:     # noqa
        raise RuntimeError(f"cannot read replay file {ctx.replay}: {e}")
    os.environ["VERIF_NO_EVIDENCE"] = "1"
    return d.get("case") or {}


def write_replay(ctx, key, payload):
    d = os.path.join(VERIF, "replays")
    os.makedirs(d, exist_ok=True)
    h = hashlib.sha1(json.dumps(payload, sort_keys=True, default=str).encode()).hexdigest()[:12]
    path = os.path.join(d, f"{ctx.prop}-{h}.json")
    payload = dict(payload)
    payload.update(property=ctx.prop, key=key, tier=ctx.tier, seed=ctx.seed, repo=REPO)
    with open(path, "w") as f:
        json.dump(payload, f, indent=1, default=str)
    return path


def report_failure(ctx, key, what, payload):
    """A concrete input on which the property fails.  Known finding or violation."""
    for k in load_known():
        if k.get("status", "open") == "open" and k["property"] == ctx.prop and k["key"] == key:
            line = f"KNOWN-FINDING: property={ctx.prop} key={key} {k['what']}"
            if line not in ctx.known:
                ctx.known.append(line)
            return False
    if any(v["key"] == key for v in ctx.violations):
        return True
    path = write_replay(ctx, key, dict(payload, what=what))
    ctx.violations.append(dict(key=key, what=what, replay=path))
    return True


def finish(ctx, level="proof", extra_assumptions=None):
    wall = time.time() - ctx.t0
    lines = []
    for k in ctx.known:
        lines.append(k)
    rc = 0
    for v in ctx.violations[:5]:
        lines.append(f"VIOLATION property={ctx.prop} replay={v['replay']}")
        rc = 1
    if len(ctx.violations) > 5:
        lines.append(f"[{ctx.prop}] ... and {len(ctx.violations) - 5} further violating cases (see evidence)")
    if not ctx.violations and ctx.broken:
        # the property is no longer shown to hold and the search found no failing input
        path = write_replay(ctx, "broken", dict(broken=ctx.broken,
                                                note="no concrete failing input was found by the search"))
        lines.append(f"VIOLATION property={ctx.prop} replay={path} no-failing-input-found")
        rc = 1
    cov = dict(ctx.cov)
    cov.setdefault("obligations", 0)
    cov.setdefault("discharged", 0)
    cov.setdefault("evaluations", 0)
    cov.setdefault("distinct_nontrivial", 0)
    cov.setdefault("rule", "")
    cov.setdefault("samples", [])
    cov.setdefault("checker_cmd", f"cd {COQ} && coq_makefile -f _CoqProject <files> -o Makefile && make Properties/{ctx.prop}.vo  (Coq 8.16.1; thorough tier adds coqchk -o)")
    cov.setdefault("trusted_base", TRUSTED_BASE)
    cov["broken"] = ctx.broken
    cov["known_findings_reported"] = ctx.known
    if cov["discharged"] < 1 or cov["discharged"] != cov["obligations"]:
        # a proof obligation did not check on this run: this is not proof-level evidence
        level = "other"
        cov["explanation"] = ("proof obligations did not all check on this run (see coverage.broken); "
                              "the verdict of this run is a VIOLATION, the counts below describe the search")
    ev = {
        "property_id": ctx.prop, "tier": ctx.tier, "seed": ctx.seed, "level": level,
        "coverage": cov,
        "assumptions": (extra_assumptions or []),
        "wall_s": round(wall, 2),
        "violations": len(ctx.violations) + (1 if (ctx.broken and not ctx.violations) else 0),
    }
    if (REPO == "/repo" and not os.environ.get("VERIF_NO_EVIDENCE")) or os.environ.get("VERIF_WRITE_EVIDENCE"):
        os.makedirs(os.path.join(VERIF, "evidence"), exist_ok=True)
        with open(os.path.join(VERIF, "evidence", f"{ctx.prop}.json"), "w") as f:
            json.dump(ev, f, indent=1, default=str)
    for l in lines:
        print(l)
    print(f"[{ctx.prop}] done rc={rc} wall={wall:.1f}s violations={len(ctx.violations)} broken={len(ctx.broken)} known={len(ctx.known)}")
    return rc


TRUSTED_BASE = [
    "Coq 8.16.1 kernel and vm_compute (no native_compute)",
    "axioms: none declared; every property theorem is followed by Print Assumptions and must be closed under the global context",
    "tools/extract.py (fail-closed Python-ast serialiser to the PyMini deep embedding), re-run on every check",
    "coq/PyMini/PyMini.v: hand-written semantics of the extracted Python fragment, validated differentially",
    "hand-written Model/*.v tied only by the correspondence check (differential execution of model and /repo)",
    "tools/*: case generators, Gallina printers of implementation outcomes",
    "CPython, asttokens, richreports, parsial: modelled, not verified",
]
