#!/bin/bash
# usage: confirm_seed.sh <worktree> <seed dir>  -- confirms: suite passes with patch; demo fails with, passes without
wt=$1; sd=$2
git -C $wt checkout -q -- . ; git -C $wt clean -fdq
cd /tmp && PYTHONPATH=$wt /venv/bin/python $sd/demo.py >/tmp/demo_without.txt 2>&1; w0=$?
git -C $wt apply $sd/patch.diff || { echo "patch does not apply"; exit 9; }
cd $wt && PYTHONPATH=$wt /venv/bin/python -m pytest -q -p no:cacheprovider --timeout=900 2>&1 | tail -1 > /tmp/suite.txt
cd /tmp && PYTHONPATH=$wt /venv/bin/python $sd/demo.py >/tmp/demo_with.txt 2>&1; w1=$?
git -C $wt checkout -q -- . ; git -C $wt clean -fdq
echo "suite: $(cat /tmp/suite.txt) | demo without patch exit=$w0 | demo with patch exit=$w1"
