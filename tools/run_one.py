"""Trace and compile one program file with the real nada_dsl in THIS fresh process.
Prints one JSON line: {"ok": <mir dict>} or {"exc": <class>, "msg": ..., "phase": ...}."""
import json
import sys

path = sys.argv[1]
phase = "import"
import os as _os
if _os.environ.get("VERIF_LIBPATH"):
    # the library reached through a sys.path entry added at run time, exactly as given (site.py normalises the
    # entries of PYTHONPATH at start-up; a path inserted by the program is used as it is)
    sys.path.insert(0, _os.environ["VERIF_LIBPATH"])
if len(sys.argv) > 2 and sys.argv[2] == "--script":
    # through the real file entry point
    try:
        from nada_dsl.compile import compile_script
        print(json.dumps({"ok": json.loads(compile_script(path).mir)}))
    except Exception as e:      # noqa
        print(json.dumps({"exc": type(e).__name__, "msg": str(e)[:300], "phase": "compile_script"}))
    sys.exit(0)
try:
    from nada_dsl.compiler_frontend import nada_compile
    import os
    sys.path.insert(0, os.path.dirname(os.path.abspath(path)))      # helper modules next to the program
    src = open(path, encoding="utf-8").read()
    ns = {"__name__": "prog"}
    exec(compile(src, path, "exec"), ns)
    phase = "trace"
    outs = ns["nada_main"]()
    phase = "compile"
    # through the entry point that produces the MIR TEXT (what compile_script and the command line print), read
    # back in the order it is written: the order of an object type's fields is part of the type
    mir = json.loads(nada_compile(outs))
    print(json.dumps({"ok": mir}))
except Exception as e:      # noqa
    print(json.dumps({"exc": type(e).__name__, "msg": str(e)[:300], "phase": phase}))
