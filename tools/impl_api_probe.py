"""Every PUBLIC method the DSL's value classes offer, called with arguments from a small pool of values; each call that
returns a Nada value is output and compiled (one process for all: the MIRs are independent because every probe uses its
own fresh inputs).  Prints a JSON list of {"call": "<Class>.<method>(<arg kinds>)", "ok": mir} for the accepted ones.
This looks at whatever methods exist NOW: a method added to the library is probed the day it appears."""
import inspect
import itertools
import json
import sys

from nada_dsl import *      # noqa
from nada_dsl.compiler_frontend import nada_dsl_to_nada_mir
from nada_dsl.nada_types import NadaType

n = [0]
party = Party(name="P0")


def fresh(cls):
    n[0] += 1
    return cls(Input(name=f"i{n[0]}", party=party))


def pool():
    """argument candidates, rebuilt for every call (fresh inputs)"""
    sec, pub = fresh(SecretInteger), fresh(PublicInteger)
    return {
        "secret": sec, "public": pub, "literal": Integer(3), "usecret": fresh(SecretUnsignedInteger), "upublic": fresh(PublicUnsignedInteger),
        "bsecret": fresh(SecretInteger) < fresh(SecretInteger), "bpublic": fresh(PublicInteger) < fresh(PublicInteger),
        "secret-array": Array(fresh(SecretInteger), size=3), "public-array": Array(fresh(PublicInteger), size=3),
        "int": 2, "none": None,
        "fn1": nada_fn(lambda x: x + x, args_ty={"x": SecretInteger}, return_ty=SecretInteger),
        "fn2": nada_fn(lambda acc, x: acc + x, args_ty={"acc": SecretInteger, "x": SecretInteger}, return_ty=SecretInteger),
    }


def receivers():
    p = pool()
    out = {k: v for k, v in p.items() if isinstance(v, NadaType)}
    a, b = fresh(SecretInteger), fresh(PublicInteger)
    out["ntuple"] = NTuple.new([a, b])
    out["object"] = Object.new({"s": fresh(SecretInteger), "p": fresh(PublicInteger)})
    out["tuple"] = Tuple.new(fresh(SecretInteger), fresh(PublicInteger))
    out["pairs"] = Array(fresh(SecretInteger), size=3).zip(Array(fresh(PublicInteger), size=3))
    return out


SKIP = {"to_mir", "class_to_mir", "store_in_ast", "init_as_template_type", "new", "is_scalar", "is_literal", "retrieve_inner_type", "generic_type"}
results = []
kinds = list(receivers())
for rk in kinds:
    methods = sorted(m for m in dir(receivers()[rk]) if not m.startswith("_") and m not in SKIP)
    for m in methods:
        attr = getattr(type(receivers()[rk]), m, None)
        if not callable(attr):
            continue
        for nargs in (0, 1, 2):
            for combo in itertools.product(list(pool()), repeat=nargs):
                rcv = receivers()[rk]
                p = pool()
                args = [p[c] for c in combo]
                try:
                    r = getattr(rcv, m)(*args)
                except BaseException:      # noqa
                    continue
                if not isinstance(r, NadaType) or getattr(r, "child", None) is None:
                    continue
                try:
                    mir = nada_dsl_to_nada_mir([Output(r, "o", party)])
                except BaseException:      # noqa
                    continue
                results.append({"call": f"{rk}.{m}({', '.join(combo)})", "ok": mir})
json.dump(results, sys.stdout)
