"""C08 (source tables): drive the REAL SourceRef functions and the real start of nada_dsl_to_nada_mir with operation
sequences; print what a MIR returned at the end would embed.
stdin: JSON {"root": dir, "cases": [[op, ...], ...]} with op = ["touch", path, text, version-if-rewritten-else-0] | ["index", file, line, off, len] | ["compile"]
stdout: JSON list of {"refs": [...], "files": {...}}.  Every case runs in THIS process, one after the other (state carries over:
each case's expected result is computed by the model from the whole prefix)."""
import json
import os
import sys
import types

from nada_dsl.source_ref import SourceRef
from nada_dsl.compiler_frontend import nada_dsl_to_nada_mir

spec = json.load(sys.stdin)
out = []
for case in spec["cases"]:
    for op in case:
        if op[0] == "touch":
            path = os.path.join(spec["root"], op[1])
            os.makedirs(os.path.dirname(path), exist_ok=True)
            if op[3]:                      # the file is (re)written: a new modification stamp (op[3] = its version number)
                with open(path, "w", encoding="utf-8") as f:
                    f.write(op[2])
                os.utime(path, ns=(10 ** 18 + op[3] * 10 ** 9, 10 ** 18 + op[3] * 10 ** 9))
            frame = types.SimpleNamespace(f_code=types.SimpleNamespace(co_filename=path))
            SourceRef.try_get_line_info(frame, 1)
        elif op[0] == "index":
            SourceRef(file=op[1], lineno=op[2], offset=op[3], length=op[4]).to_index()
        else:
            nada_dsl_to_nada_mir([])
    out.append({"refs": [[r["file"], r["lineno"], r["offset"], r["length"]] for r in SourceRef.get_refs()],
                "files": dict(SourceRef.get_sources())})
print(json.dumps(out))
