"""MIR JSON (as emitted by nada_dsl_to_nada_mir) -> Gallina term of coq/Model/Mir.v."""
from vlib import gstr, gz, glist


def g_ty(t):
    if isinstance(t, str):
        return f"(TyName {gstr(t)})"
    if isinstance(t, dict) and len(t) == 1:
        (k, v), = t.items()
        if k == "Array":
            sz = v.get("size")
            if sz is not None and type(sz) is not int:
                sz = -1          # a size that is not a plain JSON integer (true, 2.0, an object, a string) is not a size
            return f"(TyArray {g_ty(v['inner_type'])} {'None' if sz is None else '(Some ' + gz(sz) + ')'})"
        if k == "Tuple":
            return f"(TyTuple {g_ty(v['left_type'])} {g_ty(v['right_type'])})"
        if k == "NTuple":
            return f"(TyNTuple {glist([g_ty(x) for x in v['types']])})"
        if k == "Object":
            return f"(TyObject {glist(['(' + gstr(n) + ', ' + g_ty(x) + ')' for n, x in v['types'].items()])})"
    return f"(TyName {gstr('?' + str(t)[:40])})"


def g_sref(mir, idx):
    try:
        r = mir["source_refs"][idx]
        return (f"{{| sr_file := {gstr(r['file'])}; sr_line := {gz(r['lineno'])}; "
                f"sr_off := {gz(r['offset'])}; sr_len := {gz(r['length'])} |}}")
    except Exception:   # noqa
        return "no_sref"


def g_entry(mir, key, op, with_sref):
    if not op:
        return f"{{| e_key := {gz(key)}; e_id := (-1)%Z; e_ty := TyName \"\"; e_op := MEmpty; e_sref := no_sref |}}"
    (kind, b), = op.items()
    ty = b.get("type")
    if kind == "IfElse":
        m = f"(MIfElse {gz(b['this'])} {gz(b['arg_0'])} {gz(b['arg_1'])})"
    elif kind == "Random":
        m = "MRandom"
    elif kind == "InputReference":
        m = f"(MInputRef {gstr(b['refers_to'])})"
    elif kind == "LiteralReference":
        m = f"(MLiteralRef {gstr(b['refers_to'])})"
    elif kind == "Reduce":
        m = f"(MReduce {gz(b['fn'])} {gz(b['inner'])} {gz(b['initial'])})"
    elif kind == "Map":
        m = f"(MMap {gz(b['fn'])} {gz(b['inner'])})"
    elif kind == "New":
        m = f"(MNew {glist([gz(x) for x in b['elements']])})"
    elif kind == "NadaFunctionCall":
        m = f"(MCall {gz(b['function_id'])} {glist([gz(x) for x in b['args']])} {g_ty(b['return_type'])})"
    elif kind == "NadaFunctionArgRef":
        m = f"(MArgRef {gz(b['function_id'])} {gstr(b['refers_to'])})"
    elif kind == "NTupleAccessor":
        m = f"(MNTupleAcc {gz(b['index'])} {gz(b['source'])})"
    elif kind == "ObjectAccessor":
        m = f"(MObjectAcc {gstr(b['key'])} {gz(b['source'])})"
    elif kind == "Cast":
        m = f"(MCast {gz(b['target'])} {g_ty(b['to'])})"
    elif set(b.keys()) >= {"left", "right"}:
        m = f"(MBinary {gstr(kind)} {gz(b['left'])} {gz(b['right'])})"
    elif "this" in b:
        m = f"(MUnary {gstr(kind)} {gz(b['this'])})"
    else:
        m = "MEmpty"
    sr = g_sref(mir, b.get("source_ref_index")) if with_sref else "no_sref"
    return f"{{| e_key := {gz(key)}; e_id := {gz(b.get('id', -1))}; e_ty := {g_ty(ty)}; e_op := {m}; e_sref := {sr} |}}"


def g_table(mir, ops, with_sref):
    return glist([g_entry(mir, int(k), v, with_sref) for k, v in ops.items()])


def g_mir(mir, with_sref=False):
    sr = (lambda i: g_sref(mir, i)) if with_sref else (lambda i: "no_sref")
    funs = []
    for f in mir["functions"]:
        args = glist([f"{{| a_name := {gstr(a['name'])}; a_ty := {g_ty(a['type'])}; a_sref := {sr(a.get('source_ref_index'))} |}}"
                      for a in f["args"]])
        funs.append(f"{{| f_id := {gz(f['id'])}; f_args := {args}; f_name := {gstr(f['function'])}; "
                    f"f_ret := {gz(f['return_operation_id'])}; f_ops := {g_table(mir, f['operations'], with_sref)}; "
                    f"f_ret_ty := {g_ty(f['return_type'])}; f_sref := {sr(f.get('source_ref_index'))} |}}")
    parties = glist([f"{{| p_name := {gstr(p['name'])}; p_sref := {sr(p.get('source_ref_index'))} |}}" for p in mir["parties"]])
    inputs = glist([f"{{| i_name := {gstr(i['name'])}; i_ty := {g_ty(i['type'])}; i_party := {gstr(i['party'])}; "
                    f"i_doc := {gstr(i['doc'])}; i_sref := {sr(i.get('source_ref_index'))} |}}" for i in mir["inputs"]])
    lits = glist([f"{{| l_name := {gstr(l['name'])}; l_value := {gstr(l['value'])}; l_ty := {g_ty(l['type'])} |}}"
                  for l in mir["literals"]])
    outs = glist([f"{{| o_op := {gz(o['operation_id'])}; o_name := {gstr(o['name'])}; o_party := {gstr(o['party'])}; "
                  f"o_ty := {g_ty(o['type'])}; o_sref := {sr(o.get('source_ref_index'))} |}}" for o in mir["outputs"]])
    return (f"{{| m_functions := {glist(funs)}; m_parties := {parties}; m_inputs := {inputs}; "
            f"m_literals := {lits}; m_outputs := {outs}; m_ops := {g_table(mir, mir['operations'], with_sref)} |}}")


def g_ioutcome(res):
    if "ok" in res:
        return f"(IOk {g_mir(res['ok'])})"
    return f"(IRaise {gstr(res['exc'])})"
