"""Random programs of the strict subset (C14): parties, inputs, Nada integers of both modes, Python ints / bools /
strings, + - * unary minus, comparisons, if_else, lists, comprehensions and for-loops over range, sum, str, helper
functions with annotated parameters, annotated assignments; optionally one deliberately ill-typed statement."""
import random


class G:
    def __init__(self, rng):
        self.r = rng
        self.n = 0
        self.lines = []
        self.env = {}          # var -> type string
        self.common = False    # C18: only what the real DSL supports too (no unary minus on Nada values, no value= keyword)
        self.decl_parties = []
        self.decl_inputs = []

    def fresh(self, p="v"):
        self.n += 1
        return f"{p}{self.n}"

    def vars_of(self, t):
        return [v for v, tv in self.env.items() if tv == t]

    def expr(self, t, depth=0):
        r = self.r
        vs = self.vars_of(t)
        if vs and (depth > 2 or r.random() < 0.4):
            return r.choice(vs)
        if t == "int":
            c = r.random()
            if c < 0.4 or depth > 2:
                return str(r.choice([0, 1, 2, 3, 7, 10]))
            if c < 0.8:
                return f"({self.expr('int', depth + 1)} {r.choice('+-*')} {self.expr('int', depth + 1)})"
            return f"(-{self.expr('int', depth + 1)})"
        if t == "bool":
            c = r.random()
            if c < 0.3 or depth > 2:
                return r.choice(["True", "False"])
            if c < 0.6:
                return f"({self.expr('int', depth + 1)} {r.choice(['<', '<=', '>', '>=', '==', '!='])} {self.expr('int', depth + 1)})"
            if c < 0.8:
                return f"(not {self.expr('bool', depth + 1)})"
            return f"({self.expr('bool', depth + 1)} {r.choice(['and', 'or'])} {self.expr('bool', depth + 1)})"
        if t == "str":
            c = r.random()
            if c < 0.5 or depth > 2:
                return repr(r.choice(["a", "out", "x_"]))
            if c < 0.8:
                return f"({self.expr('str', depth + 1)} + {self.expr('str', depth + 1)})"
            return f"str({self.expr('int', depth + 1)})"
        if t in ("SecretInteger", "PublicInteger"):
            c = r.random()
            if depth > 2 or not self.vars_of(t):
                vs2 = self.vars_of(t)
                if vs2:
                    return r.choice(vs2)
                return None
            if c < 0.5:
                other = r.choice(["SecretInteger", "PublicInteger"])
                a, b = self.expr(t, depth + 1), self.expr(other if (t == "SecretInteger") else "PublicInteger", depth + 1)
                if a is None or b is None:
                    return a or b
                if r.random() < 0.5:
                    a, b = b, a
                return f"({a} {r.choice('+-*')} {b})"
            if c < 0.65 and not self.common:
                a = self.expr(t, depth + 1)
                return f"(-{a})" if a else None
            if c < 0.85:
                # if_else: condition of a mode not above t
                ct = r.choice(["SecretInteger", "PublicInteger"]) if t == "SecretInteger" else "PublicInteger"
                l, rr = self.expr(ct, depth + 1), self.expr(ct, depth + 1)
                a, b = self.expr(t, depth + 1), self.expr("PublicInteger" if r.random() < 0.5 else t, depth + 1)
                if None in (l, rr, a, b):
                    return a
                return f"({l} {r.choice(['<', '<=', '>', '>=', '==', '!='])} {rr}).if_else({a}, {b})"
            hs = [h for h, sig in self.env.items() if isinstance(sig, tuple) and sig[1] == t]
            if hs:
                h = r.choice(hs)
                args = [self.expr(pt, depth + 1) for pt in self.env[h][0]]
                if None not in args:
                    return f"{h}({', '.join(args)})"
            return self.expr(t, depth + 1)
        return None

    def program(self, ill_typed=False, literals=False, common=False):
        r = self.r
        self.common = common
        L = ["from nada_dsl import *", ""]
        # helpers
        for _ in range(r.choice([0, 1, 2])):
            h = self.fresh("h")
            pts = [r.choice(["SecretInteger", "PublicInteger", "int"]) for _ in range(r.choice([1, 2]))]
            if not any(p != "int" for p in pts):
                pts[0] = "SecretInteger"
            rt = "SecretInteger" if "SecretInteger" in pts else "PublicInteger"
            names = [self.fresh("p") for _ in pts]
            saved = dict(self.env)
            self.env = {n_: t for n_, t in zip(names, pts)}
            body = self.expr(rt, 1)
            self.env = saved
            L.append(f"def {h}({', '.join(f'{n_}: {t}' for n_, t in zip(names, pts))}) -> {rt}:")
            L.append(f"    return {body}")
            L.append("")
            self.env[h] = (pts, rt)
        L.append("def nada_main():")
        B = []
        B.append('p1 = Party(name="P1")'); self.env["p1"] = "Party"
        B.append('p2 = Party("P2")'); self.env["p2"] = "Party"
        pvars = ["p1", "p2"]
        if common:
            for k in range(3, 3 + r.choice([0, 0, 1, 2])):
                B.append(f'p{k} = Party(name="P{k}")'); self.env[f"p{k}"] = "Party"; pvars.append(f"p{k}")
            if r.random() < 0.3:
                r.shuffle(B)
        self.decl_parties = [b.split(" = ")[0].upper() for b in B]
        self.pvars = pvars
        # in the common subset every party variable may own inputs; most programs leave some party or input unused
        in_parties = pvars if not common or r.random() < 0.5 else pvars[:max(1, len(pvars) - 1)]
        for i in range(r.choice([2, 3, 4, 5] if common else [2, 3, 4])):
            v = self.fresh("i")
            t = r.choice(["SecretInteger", "PublicInteger"])
            form = r.choice(['Input(name="{n}", party={p})', 'Input("{n}", {p})', 'Input("{n}", party={p})'])
            pv = r.choice(in_parties)
            B.append(f"{v} = {t}({form.format(n=v, p=pv)})")
            self.env[v] = t
            self.decl_inputs.append((v, pv.upper(), t))
        for _ in range(r.choice([3, 5, 8])):
            k = r.random()
            v = self.fresh()
            if k < 0.35:
                t = r.choice(["SecretInteger", "PublicInteger", "int", "bool", "str"])
                e = self.expr(t)
                if e is None:
                    continue
                if r.random() < 0.3 and t in ("int", "bool", "str"):
                    B.append(f"{v}: {t} = {e}")
                else:
                    B.append(f"{v} = {e}")
                self.env[v] = t
            elif k < 0.55:
                t = r.choice(["SecretInteger", "PublicInteger", "int"])
                n_ = r.choice([1, 2, 3])
                B.append(f"{v}: list[{t}] = []")
                iv = self.fresh("k")
                self.env[iv] = "int"
                e = self.expr(t, 1)
                if e is None:
                    e = self.expr("int") if t == "int" else None
                if e is None:
                    B.pop(); del self.env[iv]; continue
                B.append(f"for {iv} in range({n_}):")
                B.append(f"    {v}.append({e})")
                del self.env[iv]
                self.env[v] = f"list[{t}]"
                if t == "SecretInteger" and r.random() < 0.7:
                    s = self.fresh()
                    B.append(f"{s} = sum({v})")
                    self.env[s] = "SecretInteger"
                elif t == "PublicInteger" and r.random() < 0.5 and not self.common:
                    # sum over a public list: whatever the checker says about it must match what happens at run time
                    s = self.fresh()
                    B.append(f"{s} = sum({v})")
            elif k < 0.7:
                t = r.choice(["SecretInteger", "int"])
                iv = self.fresh("j")
                self.env[iv] = "int"
                e = self.expr(t, 1)
                del self.env[iv]
                if e is None:
                    continue
                B.append(f"{v} = [{e} for {iv} in range({r.choice([1, 2, 3])})]")
                self.env[v] = f"list[{t}]"
                if r.random() < 0.5:
                    w = self.fresh()
                    B.append(f"{w} = {v}[{r.choice([0, 0, 1])}]" if False else f"{w} = {v}[0]")
                    self.env[w] = t
            elif k < 0.8:
                e = self.expr("int")
                B.append(f"{v} = [{e}, {self.expr('int')}]")
                self.env[v] = "list[int]"
            elif k < 0.9 and literals:
                if r.random() < 0.25 and not self.common:
                    # the typed constructors applied to plain integers (only Integer takes one)
                    B.append(f"{v} = {r.choice(['PublicInteger', 'SecretInteger'])}({r.choice(['10', 'v5 + 1' if 'v5' in self.env else '2'])})")
                else:
                    B.append(f"{v} = Integer({r.choice([0, 1, 5])})")
                    self.env[v] = "Integer"
            else:
                e = self.expr("SecretInteger")
                if e:
                    B.append(f"{v} = {e}"); self.env[v] = "SecretInteger"
        if ill_typed:
            kind = r.choice(["add-str", "cmp-bool", "not-int", "unbound", "mixed-list", "append-wrong"])
            bad = {"add-str": "bad = i3 + 'x'" if "i3" in self.env else "bad = 1 + 'x'", "cmp-bool": "bad = True < 3", "not-int": "bad = not 5",
                   "unbound": "bad = nowhere + 1", "mixed-list": "bad = [1, 'a']", "append-wrong": "bl: list[int] = []\nbl.append('s')"}[kind]
            spots = [i for i in range(len(B) // 2, len(B) + 1)
                     if not (i < len(B) and B[i].startswith("    ")) and not (i > 0 and B[i - 1].startswith("for "))]
            B.insert(r.choice(spots), bad)
        outs = []
        nadas = [v for v, t in self.env.items() if t in ("SecretInteger", "PublicInteger") and not v.startswith("p")]
        if common:
            # prefer late values so that most inputs are live, but not always
            late = nadas[-3:]
            forms = ['Output({v}, "{n}", {p})', 'Output({v}, name="{n}", party={p})', 'Output({v}, "{n}", party={p})']
            for i in range(r.choice([1, 2, 3])):
                o = r.choice(late if r.random() < 0.7 else nadas)
                outs.append(r.choice(forms).format(v=o, n=f"o{i}", p=r.choice(self.pvars)))
            style = r.random()
            if style < 0.35 and len(outs) > 1:
                # outputs built first, returned in another order
                for i, o in enumerate(outs):
                    B.append(f"out{i} = {o}")
                order = list(range(len(outs)))
                r.shuffle(order)
                B.append(f"return [{', '.join(f'out{i}' for i in order)}]")
            elif style < 0.45:
                B.append("outs = []")
                for o in outs:
                    B.append(f"outs.append({o})")
                B.append("return outs")
            else:
                B.append(f"return [{', '.join(outs)}]")
        else:
            for i in range(r.choice([1, 2])):
                o = r.choice(nadas)
                form = r.choice(['Output({v}, "{n}", {p})', 'Output(value={v}, name="{n}", party={p})', 'Output({v}, "{n}", party={p})'])
                outs.append(form.format(v=o, n=f"o{i}", p=r.choice(["p1", "p2"])))
            B.append(f"return [{', '.join(outs)}]")
        for b in B:
            for ln in b.split("\n"):
                L.append("    " + ln if not ln.startswith("    ") or True else ln)
        return "\n".join(L) + "\n"


def programs(seed, n):
    rng = random.Random(seed)
    out = []
    for i in range(n):
        g = G(rng)
        kind = "ill-typed" if i % 6 == 5 else ("literals" if i % 11 == 10 else "plain")
        out.append((kind, g.program(ill_typed=(kind == "ill-typed"), literals=(kind == "literals"))))
    return out


def common_programs(seed, n):
    """C18: programs both class libraries accept, with what nada_main constructs: (kind, text, parties, inputs)"""
    rng = random.Random(seed)
    out = []
    for i in range(n):
        g = G(rng)
        kind = "literals" if i % 7 == 6 else "plain"
        text = g.program(literals=(kind == "literals"), common=True)
        out.append((kind, text, list(g.decl_parties), list(g.decl_inputs)))
    return out


FIXED = [
    ("unary-plus", 'from nada_dsl import *\n\ndef nada_main():\n    p = Party(name="P")\n    a = SecretInteger(Input(name="a", party=p))\n    b = +a\n    return [Output(b, "o", p)]\n'),
    ("integer-literal", 'from nada_dsl import *\n\ndef nada_main():\n    p = Party(name="P")\n    a = SecretInteger(Input(name="a", party=p))\n    k = Integer(5)\n    b = a * k\n    return [Output(b, "o", p)]\n'),
    ("sum-of-empty", 'from nada_dsl import *\n\ndef nada_main():\n    p = Party(name="P")\n    a = SecretInteger(Input(name="a", party=p))\n    l: list[SecretInteger] = []\n    s = sum(l)\n    return [Output(a, "o", p)]\n'),
    ("if-else-secret-condition", 'from nada_dsl import *\n\ndef nada_main():\n    p = Party(name="P")\n    s = SecretInteger(Input(name="s", party=p))\n    u = PublicInteger(Input(name="u", party=p))\n    v = PublicInteger(Input(name="v", party=p))\n    r = (s < u).if_else(u, v)\n    return [Output(r, "o", p)]\n'),
    # shapes found by reading strict.types against the abstract classes (second seeding round)
    ("return-annotation-unchecked", 'from nada_dsl import *\n\ndef f(x: Integer) -> SecretInteger:\n    return x\n\ndef nada_main():\n    p = Party(name="P")\n    a = Integer(3)\n    s = SecretInteger(Input(name="s", party=p))\n    b = f(a)\n    return [Output(s, "o", p)]\n'),
    ("nested-list-annotation", 'from nada_dsl import *\n\ndef nada_main():\n    p = Party(name="P")\n    s = SecretInteger(Input(name="s", party=p))\n    q: list[list[int]] = [[]]\n    r = q[0]\n    return [Output(s, "o", p)]\n'),
    ("element-assignment-of-another-type", 'from nada_dsl import *\n\ndef nada_main():\n    p = Party(name="P")\n    a = Integer(3)\n    s = SecretInteger(Input(name="s", party=p))\n    l: list[Integer] = [a]\n    l[0] = s\n    y = l[0]\n    return [Output(s, "o", p)]\n'),
    ("loop-carried-type", 'from nada_dsl import *\n\ndef nada_main():\n    p = Party(name="P")\n    x = Integer(3)\n    s = SecretInteger(Input(name="s", party=p))\n    for i in range(2):\n        y = x\n        x = x + s\n    return [Output(s, "o", p)]\n'),
    ("empty-range-body", 'from nada_dsl import *\n\ndef nada_main():\n    p = Party(name="P")\n    s = SecretInteger(Input(name="s", party=p))\n    for i in range(0):\n        z = s + s\n    w = z\n    return [Output(s, "o", p)]\n'),
    ("list-called-as-function", 'from nada_dsl import *\n\ndef nada_main():\n    p = Party(name="P")\n    a = Integer(3)\n    s = SecretInteger(Input(name="s", party=p))\n    l: list[Integer] = [a]\n    y = l()\n    return [Output(s, "o", p)]\n'),
    ("sum-of-public-list", 'from nada_dsl import *\n\ndef nada_main():\n    p = Party(name="P")\n    u = PublicInteger(Input(name="u", party=p))\n    s = SecretInteger(Input(name="s", party=p))\n    l: list[PublicInteger] = []\n    for i in range(2):\n        l.append(u)\n    t = sum(l)\n    c = (t < u).if_else(u, u)\n    return [Output(s, "o", p)]\n'),
    ("sum-of-literal-list", 'from nada_dsl import *\n\ndef nada_main():\n    p = Party(name="P")\n    s = SecretInteger(Input(name="s", party=p))\n    l = [Integer(1) for j in range(2)]\n    t = sum(l)\n    return [Output(s, "o", p)]\n'),
    # comprehensions have their own scope (third seeding round)
    ("comprehension-variable-used-afterwards", 'from nada_dsl import *\n\ndef nada_main():\n    p = Party(name="P")\n    xs = [SecretInteger(Input(name="x" + str(i), party=p)) for i in range(3)]\n    last = str(i)\n    return [Output(sum(xs), "total_" + last, p)]\n'),
    ("comprehension-variable-shadows-a-name", 'from nada_dsl import *\n\ndef nada_main():\n    p = Party(name="P")\n    v = "a"\n    xs = [SecretInteger(Input(name="x" + str(v), party=p)) for v in range(2)]\n    w = v\n    z = w + "b"\n    return [Output(sum(xs), "total", p)]\n'),
    # range() with more than one argument (fifth seeding round): every argument must be a plain int
    ("range-with-a-nada-bound", 'from nada_dsl import *\n\ndef nada_main():\n    p = Party(name="P")\n    s = SecretInteger(Input(name="s", party=p))\n    n = Integer(3)\n    t = s\n    for i in range(1, n):\n        t = t + s\n    return [Output(t, "o", p)]\n'),
    ("range-with-a-secret-bound", 'from nada_dsl import *\n\ndef nada_main():\n    p = Party(name="P")\n    s = SecretInteger(Input(name="s", party=p))\n    t = s\n    for i in range(0, s):\n        t = t + s\n    return [Output(t, "o", p)]\n'),
    ("range-with-a-string-bound", 'from nada_dsl import *\n\ndef nada_main():\n    p = Party(name="P")\n    s = SecretInteger(Input(name="s", party=p))\n    t = s\n    for i in range(0, "3"):\n        t = t + s\n    return [Output(t, "o", p)]\n'),
    ("range-with-a-nada-step", 'from nada_dsl import *\n\ndef nada_main():\n    p = Party(name="P")\n    s = SecretInteger(Input(name="s", party=p))\n    k = Integer(2)\n    xs = [s for i in range(0, 4, k)]\n    return [Output(sum(xs), "o", p)]\n'),
    # lists whose items do not have the declared item type (sixth seeding round)
    ("append-of-another-secrecy-then-sum", 'from nada_dsl import *\n\ndef nada_main():\n    p = Party(name="P")\n    u = PublicInteger(Input(name="u", party=p))\n    s = SecretInteger(Input(name="s", party=p))\n    votes: list[SecretInteger] = []\n    votes.append(u)\n    total = sum(votes)\n    return [Output(total, "o", p), Output(s, "s", p)]\n'),
    ("annotated-list-of-other-items", 'from nada_dsl import *\n\ndef nada_main():\n    p = Party(name="P")\n    s = SecretInteger(Input(name="s", party=p))\n    x: list[int] = ["a"]\n    y = x[0]\n    return [Output(s, "o", p)]\n'),
    ("list-display-of-mixed-secrecy", 'from nada_dsl import *\n\ndef nada_main():\n    p = Party(name="P")\n    u = PublicInteger(Input(name="u", party=p))\n    s = SecretInteger(Input(name="s", party=p))\n    l = [s, u]\n    first = l[1]\n    return [Output(first, "o", p)]\n'),
    # an annotated assignment whose value has another (less secret) class (seventh seeding round)
    ("annotated-secret-assigned-a-literal", 'from nada_dsl import *\n\ndef nada_main():\n    p = Party(name="P")\n    s = SecretInteger(Input(name="s", party=p))\n    total: SecretInteger = Integer(0)\n    return [Output(total, "t", p), Output(s, "s", p)]\n'),
    ("annotated-secret-assigned-a-public", 'from nada_dsl import *\n\ndef nada_main():\n    p = Party(name="P")\n    u = PublicInteger(Input(name="u", party=p))\n    s = SecretInteger(Input(name="s", party=p))\n    x: SecretInteger = u\n    y = x + s\n    z = x * u\n    return [Output(y, "y", p), Output(z, "z", p)]\n'),
    ("annotated-public-assigned-a-literal", 'from nada_dsl import *\n\ndef nada_main():\n    p = Party(name="P")\n    s = SecretInteger(Input(name="s", party=p))\n    k: PublicInteger = Integer(3)\n    w = k * k\n    return [Output(s * w, "o", p)]\n'),
    ("module-level-name-rebound-after-a-helper-used-it", 'from nada_dsl import *\n\nk = Integer(2)\n\ndef scale(x: SecretInteger) -> SecretInteger:\n    return x * k\n\nk = 5\n\ndef nada_main():\n    p = Party(name="P")\n    s = SecretInteger(Input(name="s", party=p))\n    y = scale(s)\n    return [Output(y, "o", p)]\n'),
    # a loop variable that shadows an earlier name and is read after the loop (ninth seeding round)
    ("loop-variable-shadows-a-name-read-afterwards", 'from nada_dsl import *\n\ndef nada_main():\n    p = Party(name="P")\n    v = SecretInteger(Input(name="v", party=p))\n    t = v + v\n    for v in range(3):\n        t = t + t\n    kept = v\n    w = kept + 1\n    return [Output(t, "o", p)]\n'),
    ("loop-variable-read-after-the-loop", 'from nada_dsl import *\n\ndef nada_main():\n    p = Party(name="P")\n    s = SecretInteger(Input(name="s", party=p))\n    t = s\n    for i in range(2):\n        t = t + s\n    last = i\n    n = last * 2\n    return [Output(t, "o", p)]\n'),
    ("nested-loops-reusing-the-variable", 'from nada_dsl import *\n\ndef nada_main():\n    p = Party(name="P")\n    s = SecretInteger(Input(name="s", party=p))\n    i = s\n    t = i + s\n    for i in range(2):\n        for j in range(2):\n            t = t + s\n        k = i + j\n    m = i\n    return [Output(t, "o", p)]\n'),
    # a loop over something that is not a range: the loop is reported; its target must not be given a type it does not have
    ("loop-over-a-list-display", 'from nada_dsl import *\n\ndef nada_main():\n    p = Party(name="P")\n    a = SecretInteger(Input(name="a", party=p))\n    b = SecretInteger(Input(name="b", party=p))\n    t = a\n    for q in [a, b]:\n        t = t + q\n    last = q\n    return [Output(t, "o", p)]\n'),
    ("comprehension-over-a-list-variable", 'from nada_dsl import *\n\ndef nada_main():\n    p = Party(name="P")\n    a = SecretInteger(Input(name="a", party=p))\n    l = [a, a]\n    m = [e for e in l]\n    return [Output(a, "o", p)]\n'),
    # eleventh seeding round: what may be output, helper parameters of several kinds, recursion
    ("output-of-a-literal", 'from nada_dsl import *\n\ndef nada_main():\n    p = Party(name="P")\n    s = SecretInteger(Input(name="s", party=p))\n    scale = Integer(3) * Integer(4)\n    return [Output(s, "o", p), Output(scale, "scale", p)]\n'),
    ("output-of-a-literal-from-a-helper", 'from nada_dsl import *\n\ndef unit(k: Integer) -> Integer:\n    return k + Integer(1)\n\ndef nada_main():\n    p = Party(name="P")\n    s = SecretInteger(Input(name="s", party=p))\n    u = unit(Integer(2))\n    return [Output(u, name="u", party=p), Output(s, "o", p)]\n'),
    ("helper-with-a-party-parameter-first", 'from nada_dsl import *\n\ndef weighted(who: Party, vote: SecretInteger, weight: PublicInteger) -> SecretInteger:\n    return vote * weight\n\ndef nada_main():\n    p = Party(name="P")\n    v = SecretInteger(Input(name="v", party=p))\n    w = PublicInteger(Input(name="w", party=p))\n    r = weighted(p, v, w)\n    return [Output(r, "o", p)]\n'),
    ("helper-with-an-unannotated-middle-parameter", 'from nada_dsl import *\n\ndef mix(a: SecretInteger, tag, b: PublicInteger, n: int) -> SecretInteger:\n    c = b * n\n    return a + c\n\ndef nada_main():\n    p = Party(name="P")\n    v = SecretInteger(Input(name="v", party=p))\n    w = PublicInteger(Input(name="w", party=p))\n    r = mix(v, "x", w, 3)\n    return [Output(r, "o", p)]\n'),
    ("helper-with-list-of-parties-then-str-then-int", 'from nada_dsl import *\n\ndef label(ps: list[Party], prefix: str, k: int) -> str:\n    return prefix + str(k)\n\ndef nada_main():\n    p = Party(name="P")\n    s = SecretInteger(Input(name="s", party=p))\n    nm = label([p], "out", 2)\n    return [Output(s, nm, p)]\n'),
    ("recursive-helper", 'from nada_dsl import *\n\ndef power(base: PublicInteger, e: int) -> PublicInteger:\n    return base * power(base, e - 1)\n\ndef nada_main():\n    p = Party(name="P")\n    b = PublicInteger(Input(name="b", party=p))\n    r = power(b, 3)\n    return [Output(r, "o", p)]\n'),
    ("recursive-helper-reached-through-another", 'from nada_dsl import *\n\ndef down(x: SecretInteger, n: int) -> SecretInteger:\n    return down(x + x, n - 1)\n\ndef start(x: SecretInteger) -> SecretInteger:\n    return down(x, 2)\n\ndef nada_main():\n    p = Party(name="P")\n    s = SecretInteger(Input(name="s", party=p))\n    r = start(s)\n    return [Output(r, "o", p)]\n'),
    # fourteenth seeding round: a bare annotation is not a binding; an augmented assignment changes the value's class
    ("bare-annotation-then-use", 'from nada_dsl import *\n\ndef nada_main():\n    p = Party(name="P")\n    a = SecretInteger(Input(name="a", party=p))\n    total: SecretInteger\n    r = total + a\n    return [Output(r, "o", p)]\n'),
    ("augmented-assignment-changes-the-class", 'from nada_dsl import *\n\ndef nada_main():\n    p = Party(name="P")\n    a = SecretInteger(Input(name="a", party=p))\n    total = Integer(0)\n    total += a\n    double = total + total\n    return [Output(double, "o", p)]\n'),
    ("augmented-assignment-in-a-loop", 'from nada_dsl import *\n\ndef nada_main():\n    p = Party(name="P")\n    a = SecretInteger(Input(name="a", party=p))\n    u = PublicInteger(Input(name="u", party=p))\n    acc = u\n    for i in range(2):\n        acc *= a\n    last = acc - u\n    return [Output(last, "o", p)]\n'),
    ("typed-constructor-of-int", 'from nada_dsl import *\n\ndef nada_main():\n    p = Party(name="P")\n    s = SecretInteger(Input(name="s", party=p))\n    n = 3\n    a = PublicInteger(10)\n    b = SecretInteger(n + 1)\n    return [Output(s, "o", p)]\n'),
]
